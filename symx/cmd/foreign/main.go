// Command foreign lists non-mangle functions statically called from mangle packages.
package main

import (
	"fmt"
	"os"
	"sort"
	"strings"

	"golang.org/x/tools/go/ssa"
	"golang.org/x/tools/go/ssa/ssautil"
	"symx/load"
)

func main() {
	p, err := load.Load("/repo", nil, os.Args[1:])
	if err != nil {
		fmt.Println(err)
		os.Exit(1)
	}
	counts := map[string]int{}
	for fn := range ssautil.AllFunctions(p.Prog) {
		root := fn
		for root.Parent() != nil {
			root = root.Parent()
		}
		pk := root.Pkg
		if pk == nil && root.Origin() != nil {
			pk = root.Origin().Pkg
		}
		if !load.IsTarget(pk) {
			continue
		}
		if pk.Pkg.Name() == "gen" || pk.Pkg.Name() == "parse" {
			continue
		}
		for _, b := range fn.Blocks {
			for _, ins := range b.Instrs {
				var cc *ssa.CallCommon
				switch x := ins.(type) {
				case *ssa.Call:
					cc = &x.Call
				case *ssa.Defer:
					cc = &x.Call
				case *ssa.Go:
					cc = &x.Call
				}
				if cc == nil {
					continue
				}
				if cc.IsInvoke() {
					if cc.Method.Pkg() != nil && !strings.HasPrefix(cc.Method.Pkg().Path(), "codeberg") {
						counts["invoke "+cc.Method.FullName()+"  in "+pk.Pkg.Name()]++
					}
					continue
				}
				if callee := cc.StaticCallee(); callee != nil {
					r := callee
					for r.Parent() != nil {
						r = r.Parent()
					}
					cp := r.Pkg
					if cp == nil && r.Origin() != nil {
						cp = r.Origin().Pkg
					}
					if !load.IsTarget(cp) {
						counts[callee.String()+"  in "+pk.Pkg.Name()]++
					}
				}
			}
		}
	}
	var ks []string
	for k := range counts {
		ks = append(ks, k)
	}
	sort.Strings(ks)
	for _, k := range ks {
		fmt.Println(counts[k], k)
	}
}
