// Command symx: bounded symbolic execution of harness functions over the
// real mangle code (go/ssa), with SMT-decided branches and assertions.
package main

import (
	"encoding/json"
	"flag"
	"fmt"
	"os"
	"os/exec"
	"path/filepath"
	"regexp"
	"runtime"
	"sort"
	"strconv"
	"strings"
	"time"

	"symx/interp"
	"symx/load"
)

// repoDir is the tree under check; VX_REPO overrides it (used only to run a
// check against a scratch worktree carrying a seeded change). outDir receives
// evidence/ and replays/; VX_OUT overrides it so that such runs never touch the
// evidence of /repo itself. VX_VERIF relocates the harnesses, checks.json and known
// findings (a snapshot of /verif, e.g. under `vp run`).
var (
	repoDir  = envOr("VX_REPO", "/repo")
	verifDir = envOr("VX_VERIF", "/verif")
	outDir   = envOr("VX_OUT", verifDir)
)

func envOr(k, d string) string {
	if v := os.Getenv(k); v != "" {
		return v
	}
	return d
}

func harnessRoot() string { return filepath.Join(verifDir, "harness") }

// ---------------------------------------------------------------- config

type Exploration struct {
	ID       string         `json:"id"`
	Pkg      string         `json:"pkg"`
	Fn       string         `json:"fn"`
	Params   map[string]int `json:"params,omitempty"`
	Tiers    []string       `json:"tiers"`
	MaxSteps int64          `json:"max_steps,omitempty"`
	MaxDec   int            `json:"max_decisions,omitempty"`
	Note     string         `json:"note,omitempty"`
	Bounds   string         `json:"bounds,omitempty"`
	NoTwin   bool           `json:"no_twin,omitempty"`
	Replay   string              `json:"replay,omitempty"`   // "native" (default) or "symx" (re-run of the recorded path in the interpreter; for engine-level obligations with no native counterpart)
	Solver   string              `json:"solver,omitempty"`   // "z3" (default) or "cvc5"
	SolverMs int                 `json:"solver_ms,omitempty"`
	NoWitness bool               `json:"no_witness,omitempty"`
	MaxWallS  int                `json:"max_wall_s,omitempty"`
	Validate []map[string]string `json:"validate,omitempty"` // concrete input vectors for translator validation
}

type PropCfg struct {
	Level        string        `json:"level"`
	Assumptions  []string      `json:"assumptions"`
	Stubs        []string      `json:"stubs"`
	Outside      []string      `json:"outside"`
	Explorations []Exploration `json:"explorations"`
}

type Finding struct {
	Property string `json:"property"`
	Harness  string `json:"harness"`
	Label    string `json:"label"`
	Tag      string `json:"tag,omitempty"`
	Explorations []string `json:"explorations,omitempty"` // exploration id prefixes this finding is limited to (empty = any)
	Status   string `json:"status"` // "known" or "fixed"
	Commit   string `json:"commit,omitempty"`
	What     string `json:"what"`
}

func loadJSON(path string, v any) error {
	b, err := os.ReadFile(path)
	if err != nil {
		return err
	}
	return json.Unmarshal(b, v)
}

// ---------------------------------------------------------------- overlay generation

var vxFuncRe = regexp.MustCompile(`(?m)^func (Vx[A-Za-z0-9_]+)\(\)\s*\{`)
var pkgRe = regexp.MustCompile(`(?m)^package ([a-z0-9_]+)`)

// genOverlay builds the overlay for symbolic loading and native replay:
// harness files + generated API and (optionally) test driver per package.
func genOverlay(withTests bool) (map[string][]byte, error) {
	ov := map[string][]byte{}
	root := harnessRoot()
	tmpl, err := os.ReadFile(filepath.Join(verifDir, "rt", "vxapi.go.tmpl"))
	if err != nil {
		return nil, err
	}
	ttmpl, err := os.ReadFile(filepath.Join(verifDir, "rt", "vxreplay_test.go.tmpl"))
	if err != nil {
		return nil, err
	}
	dirs, _ := os.ReadDir(root)
	for _, d := range dirs {
		if !d.IsDir() {
			continue
		}
		files, _ := filepath.Glob(filepath.Join(root, d.Name(), "*.go"))
		if len(files) == 0 {
			continue
		}
		pkgName := ""
		var fns []string
		for _, f := range files {
			b, err := os.ReadFile(f)
			if err != nil {
				return nil, err
			}
			ov[filepath.Join(repoDir, d.Name(), filepath.Base(f))] = b
			if m := pkgRe.FindSubmatch(b); m != nil && pkgName == "" {
				pkgName = string(m[1])
			}
			for _, m := range vxFuncRe.FindAllSubmatch(b, -1) {
				fns = append(fns, string(m[1]))
			}
		}
		sort.Strings(fns)
		api := strings.ReplaceAll(string(tmpl), "PKGNAME", pkgName)
		var reg strings.Builder
		for _, f := range fns {
			fmt.Fprintf(&reg, "\t%q: %s,\n", f, f)
		}
		api = strings.ReplaceAll(api, "/*REGISTRY*/", reg.String())
		ov[filepath.Join(repoDir, d.Name(), "zz_vx_api.go")] = []byte(api)
		if withTests {
			ov[filepath.Join(repoDir, d.Name(), "zz_vx_replay_test.go")] = []byte(strings.ReplaceAll(string(ttmpl), "PKGNAME", pkgName))
		}
	}
	return ov, nil
}

// writeOverlayFiles materialises an overlay for `go test -overlay`.
func writeOverlayFiles(ov map[string][]byte, dir string) (string, error) {
	repl := map[string]string{}
	n := 0
	for virt, content := range ov {
		n++
		real := filepath.Join(dir, fmt.Sprintf("f%03d_%s", n, filepath.Base(virt)))
		if err := os.WriteFile(real, content, 0o644); err != nil {
			return "", err
		}
		repl[virt] = real
	}
	b, _ := json.Marshal(map[string]any{"Replace": repl})
	p := filepath.Join(dir, "overlay.json")
	return p, os.WriteFile(p, b, 0o644)
}

// ---------------------------------------------------------------- replay

type ReplayFile struct {
	Property string            `json:"property"`
	Pkg      string            `json:"pkg"`
	Harness  string            `json:"harness"`
	Label    string            `json:"label"`
	Tag      string            `json:"tag"`
	Kind     string            `json:"kind"`
	Detail   string            `json:"detail,omitempty"`
	Inputs   map[string]string `json:"inputs"`
	Params   map[string]int    `json:"params"`
	Choices  map[string]int    `json:"choices"`
}

type replayer struct {
	dir     string
	ovPath  string
	prepared bool
}

func (r *replayer) prepare() error {
	if r.prepared {
		return nil
	}
	dir, err := os.MkdirTemp("", "vxreplay")
	if err != nil {
		return err
	}
	ov, err := genOverlay(true)
	if err != nil {
		return err
	}
	p, err := writeOverlayFiles(ov, dir)
	if err != nil {
		return err
	}
	r.dir, r.ovPath, r.prepared = dir, p, true
	return nil
}

func (r *replayer) cleanup() {
	if r.prepared {
		os.RemoveAll(r.dir)
	}
}

// run replays file natively; returns (reproduced, output).
func (r *replayer) run(file string, rf *ReplayFile) (bool, string) {
	if err := r.prepare(); err != nil {
		return false, "replay setup: " + err.Error()
	}
	count := "-count=8"
	if rf.Kind == "observe" {
		count = "-count=1"
	}
	cmd := exec.Command("go1.26.8", "test", "-vet=off", "-v", count, "-timeout=300s", "-overlay", r.ovPath, "-run", "^TestVxReplay$", "./"+rf.Pkg)
	cmd.Dir = repoDir
	cmd.Env = append(os.Environ(), "GOFLAGS=-mod=mod", "GOPROXY=off", "GOTOOLCHAIN=local", "VX_REPLAY="+file)
	out, _ := cmd.CombinedOutput()
	txt := string(out)
	switch rf.Kind {
	case "panic":
		return strings.Contains(txt, "VXPANIC"), txt
	default:
		return strings.Contains(txt, "VXFAIL "+rf.Label), txt
	}
}

// ---- witness batches: sampled completed paths re-executed natively in one go test per package

type witnessItem struct {
	Exploration string            `json:"exploration"`
	Harness     string            `json:"harness"`
	Params      map[string]int    `json:"params"`
	Inputs      map[string]string `json:"inputs"`
	Choices     map[string]int    `json:"choices"`
}

var wOKBy = map[string]int{}

// runWitnessBatches returns the number of witnesses whose native run passed and a message per
// witness whose native run did not (assumption false, assertion failed, panic, or no result).
type witnessBad struct {
	item   witnessItem
	status string
	msg    string
}

func runWitnessBatches(rp *replayer, witnesses map[string][]witnessItem) (int, []witnessBad) {
	ok := 0
	var bad []witnessBad
	var pkgs []string
	for p := range witnesses {
		pkgs = append(pkgs, p)
	}
	sort.Strings(pkgs)
	for _, pkg := range pkgs {
		items := witnesses[pkg]
		if len(items) == 0 {
			continue
		}
		if err := rp.prepare(); err != nil {
			bad = append(bad, witnessBad{msg: "replay setup: " + err.Error()})
			continue
		}
		path := filepath.Join(rp.dir, "batch-"+strings.ReplaceAll(pkg, "/", "_")+".json")
		b, _ := json.Marshal(items)
		os.WriteFile(path, b, 0o644)
		cmd := exec.Command("go1.26.8", "test", "-vet=off", "-v", "-count=1", "-timeout=600s", "-overlay", rp.ovPath, "-run", "^TestVxBatch$", "./"+pkg)
		cmd.Dir = repoDir
		cmd.Env = append(os.Environ(), "GOFLAGS=-mod=mod", "GOPROXY=off", "GOTOOLCHAIN=local", "VX_BATCH="+path)
		out, _ := cmd.CombinedOutput()
		status := map[int]string{}
		for _, l := range strings.Split(string(out), "\n") {
			if i := strings.Index(l, "VXBATCH "); i >= 0 {
				f := strings.SplitN(strings.TrimSpace(l[i+8:]), " ", 2)
				if len(f) == 2 {
					n, _ := strconv.Atoi(f[0])
					status[n] = f[1]
				}
			}
		}
		for k, it := range items {
			st, seen := status[k]
			switch {
			case !seen:
				bad = append(bad, witnessBad{item: it, msg: fmt.Sprintf("%s witness %d: no result from the native run (%s)", it.Exploration, k, firstLines(string(out), 3))})
			case st == "pass":
				ok++
				wOKBy[it.Exploration]++
			default:
				bad = append(bad, witnessBad{item: it, status: st, msg: fmt.Sprintf("%s: native run says %q on inputs %v choices %v", it.Exploration, st, it.Inputs, it.Choices)})
			}
		}
	}
	return ok, bad
}

// ---------------------------------------------------------------- main

func main() {
	if len(os.Args) < 2 {
		fmt.Fprintln(os.Stderr, "usage: symx explore|check|replay ...")
		os.Exit(2)
	}
	switch os.Args[1] {
	case "explore":
		os.Exit(cmdExplore(os.Args[2:]))
	case "check":
		os.Exit(cmdCheck(os.Args[2:]))
	case "replay":
		os.Exit(cmdReplay(os.Args[2:]))
	}
	fmt.Fprintln(os.Stderr, "unknown subcommand")
	os.Exit(2)
}

func parseParams(s string) map[string]int {
	m := map[string]int{}
	for _, kv := range strings.Split(s, ",") {
		if kv == "" {
			continue
		}
		p := strings.SplitN(kv, "=", 2)
		n, _ := strconv.Atoi(p[1])
		m[p[0]] = n
	}
	return m
}

func loadProgram(pkgs []string) (*load.Program, error) {
	ov, err := genOverlay(false)
	if err != nil {
		return nil, err
	}
	return load.Load(repoDir, ov, pkgs)
}

func cmdExplore(args []string) int {
	fs := flag.NewFlagSet("explore", flag.ExitOnError)
	pkg := fs.String("pkg", "", "package dir relative to /repo")
	fn := fs.String("fn", "", "harness function")
	params := fs.String("params", "", "K=3,N=2")
	workers := fs.Int("workers", runtime.NumCPU(), "")
	twin := fs.Bool("twin", false, "")
	maxPaths := fs.Int("maxpaths", 0, "")
	maxSteps := fs.Int64("maxsteps", 0, "")
	timeout := fs.Int("solver-timeout-ms", 20000, "")
	transcript := fs.String("transcript", "", "")
	solver := fs.String("solver", "z3", "z3 | z3-new | cvc5")
	fixed := fs.String("fixed", "", "name=value,... (concrete run)")
	verbose := fs.Bool("v", false, "")
	fs.Parse(args)
	t0 := time.Now()
	p, err := loadProgram([]string{*pkg})
	if err != nil {
		fmt.Println(err)
		return 2
	}
	fmt.Fprintf(os.Stderr, "load+build %v\n", time.Since(t0))
	sp := p.Pkgs[*pkg]
	f := sp.Func(*fn)
	if f == nil {
		fmt.Println("no such function", *fn)
		return 2
	}
	opt := interp.Options{Workers: *workers, Params: parseParams(*params), Twin: *twin, MaxPaths: *maxPaths, MaxSteps: *maxSteps, SolverTimeMs: *timeout, Transcript: *transcript, SolverBin: *solver}
	if *fixed != "" {
		opt.Fixed = map[string]string{}
		for _, kv := range strings.Split(*fixed, ",") {
			pp := strings.SplitN(kv, "=", 2)
			opt.Fixed[pp[0]] = pp[1]
		}
	}
	res := interp.Explore(&interp.Harness{Prog: p.Prog, Pkg: sp, Fn: f, IsTarget: load.IsTarget}, opt)
	printResult(res, *verbose)
	if len(res.Violations) > 0 {
		return 1
	}
	if !res.Clean() {
		return 2
	}
	return 0
}

func printResult(res *interp.Result, verbose bool) {
	fmt.Printf("paths=%d completed=%d pruned=%d panics=%d budget=%d asserts=%d discharged=%d inconclusive=%d decisions=%d steps=%d queries=%d solver=%.1fs maxq=%.2fs wall=%.1fs truncated=%v fallbacks=%d\n",
		res.Paths, res.Completed, res.Pruned, res.Panics, res.BudgetCuts, res.Asserts, res.Discharged, res.Inconclusive, res.Decisions, res.Steps, res.SolverQueries, res.SolverTime.Seconds(), res.MaxQuery.Seconds(), res.Wall.Seconds(), res.Truncated, res.Fallbacks)
	fmt.Printf("reached=%v\n", res.Reached)
	for k, n := range res.Unsupported {
		fmt.Printf("UNSUPPORTED x%d: %s\n", n, k)
	}
	for _, e := range res.EngineErrors {
		fmt.Printf("ENGINE-ERROR: %s\n", e)
	}
	seen := map[string]int{}
	for _, v := range res.Violations {
		key := v.Label + "|" + v.Tag + "|" + v.Kind
		seen[key]++
		if seen[key] <= 3 || verbose {
			fmt.Printf("VIOL %s tag=%q kind=%s inconclusive=%v detail=%q inputs=%v choices=%v\n", v.Label, v.Tag, v.Kind, v.Inconclusive, v.Detail, v.Inputs, v.ChoiceVals)
		}
	}
	for k, n := range seen {
		fmt.Printf("violation class %s: %d paths\n", k, n)
	}
	if verbose {
		for _, o := range res.Observes {
			fmt.Println("observe:", o)
		}
	}
}

// ---------------------------------------------------------------- check

type exploreSummary struct {
	ID           string         `json:"id"`
	Harness      string         `json:"harness"`
	Params       map[string]int `json:"params,omitempty"`
	Bounds       string         `json:"bounds,omitempty"`
	Paths        int            `json:"paths"`
	Completed    int            `json:"completed"`
	Pruned       int            `json:"assume_pruned"`
	Asserts      int            `json:"assertion_queries"`
	Discharged   int            `json:"discharged_unsat"`
	Decisions    int64          `json:"decisions"`
	Steps        int64          `json:"ssa_steps"`
	Queries      int            `json:"solver_queries"`
	SolverS      float64        `json:"solver_s"`
	MaxQueryS    float64        `json:"max_query_s"`
	Fallbacks    int            `json:"unknowns_resolved_by_fallback_solver,omitempty"`
	WallS        float64        `json:"wall_s"`
	Reached      map[string]int `json:"reached"`
	Cut          int            `json:"paths_cut"`
	Unsupported  map[string]int `json:"unsupported_aborts,omitempty"`
	Inconclusive int            `json:"inconclusive"`
	Violations   int            `json:"violating_paths"`
	Cases        int            `json:"distinct_case_vectors"`
	TwinViolated *bool          `json:"twin_violated,omitempty"`
	Validated    int            `json:"traces_validated"`
	Witnessed    int            `json:"sampled_paths_reexecuted_natively,omitempty"`
}

func cmdCheck(args []string) int {
	if len(args) < 2 {
		fmt.Fprintln(os.Stderr, "usage: symx check <property> quick|thorough [--only id]")
		return 2
	}
	prop, tier := args[0], args[1]
	only := ""
	noTwin := false
	for k := 2; k < len(args); k++ {
		if args[k] == "--only" && k+1 < len(args) {
			only = args[k+1]
		}
		if args[k] == "--no-twin" {
			noTwin = true
		}
	}
	t0 := time.Now()
	var cfg map[string]PropCfg
	if err := loadJSON(filepath.Join(verifDir, "checks.json"), &cfg); err != nil {
		fmt.Println("checks.json:", err)
		return 2
	}
	pc, ok := cfg[prop]
	if !ok {
		fmt.Println("no such property in checks.json:", prop)
		return 2
	}
	var kf struct {
		Findings []Finding `json:"findings"`
	}
	loadJSON(filepath.Join(verifDir, "known_findings.json"), &kf)

	var todo []Exploration
	pkgSet := map[string]bool{}
	for _, e := range pc.Explorations {
		inTier := false
		for _, t := range e.Tiers {
			if t == tier {
				inTier = true
			}
		}
		if !inTier || (only != "" && e.ID != only) {
			continue
		}
		todo = append(todo, e)
		pkgSet[e.Pkg] = true
	}
	if len(todo) == 0 {
		fmt.Println("no explorations for", prop, tier)
		return 2
	}
	var pkgs []string
	for p := range pkgSet {
		pkgs = append(pkgs, p)
	}
	sort.Strings(pkgs)
	prog, err := loadProgram(pkgs)
	if err != nil {
		// The harness does not compile against the current tree: that is a broken build, not a verdict.
		fmt.Println("LOAD-ERROR:", err)
		writeEvidence(prop, tier, pc, nil, nil, 0, time.Since(t0), "load error: "+err.Error(), nil, 0)
		return 2
	}
	loadT := time.Since(t0)

	seed, _ := strconv.Atoi(os.Getenv("VERIF_SEED"))
	workers := runtime.NumCPU()
	if w, err := strconv.Atoi(os.Getenv("VX_WORKERS")); err == nil && w > 0 {
		workers = w
	}
	rp := &replayer{}
	defer rp.cleanup()
	os.MkdirAll(filepath.Join(outDir, "replays", prop), 0o755)

	var sums []exploreSummary
	funcs := map[string]int64{}
	var samples []any
	exit := 0
	notClean := []string{}
	violLines := []string{}
	knownHit := map[string]int{}
	totalViol := 0
	validated := 0
	witnesses := map[string][]witnessItem{}

	for _, e := range todo {
		sp := prog.Pkgs[e.Pkg]
		f := sp.Func(e.Fn)
		if f == nil {
			fmt.Printf("ENGINE-ERROR: harness %s.%s not found\n", e.Pkg, e.Fn)
			exit = 2
			continue
		}
		h := &interp.Harness{Prog: prog.Prog, Pkg: sp, Fn: f, IsTarget: load.IsTarget}
		opt := interp.Options{Workers: workers, Params: e.Params, MaxSteps: e.MaxSteps, MaxDecisions: e.MaxDec, SolverTimeMs: 60000, SolverBin: e.Solver}
		if e.SolverMs > 0 {
			opt.SolverTimeMs = e.SolverMs
		}
		// wall-clock cap per exploration: a run that does not finish is reported as not clean
		// (truncated), never left running (default 30 min quick, 3 h thorough)
		wall := 1800
		if tier == "thorough" {
			wall = 3 * 3600
		}
		if e.MaxWallS > 0 {
			wall = e.MaxWallS
		}
		if v, err := strconv.Atoi(os.Getenv("VX_WALL_S")); err == nil && v > 0 {
			wall = v // sizing runs: find explorations that do not finish within a given time
		}
		opt.Deadline = time.Now().Add(time.Duration(wall) * time.Second)
		if !e.NoWitness && e.Replay != "symx" && os.Getenv("VX_NO_WITNESS") == "" {
			// sample completed paths for native re-execution (translator validation, see runWitnessBatches)
			opt.WitnessMax, opt.WitnessEvery = 4, 9
			if tier == "thorough" {
				opt.WitnessMax = 8
			}
		}
		res := interp.Explore(h, opt)
		for _, w := range res.Witnesses {
			witnesses[e.Pkg] = append(witnesses[e.Pkg], witnessItem{Exploration: e.ID, Harness: e.Fn, Params: e.Params, Inputs: w.Inputs, Choices: w.Choices})
		}
		sm := exploreSummary{ID: e.ID, Harness: e.Pkg + "." + e.Fn, Params: e.Params, Bounds: e.Bounds, Paths: res.Paths, Completed: res.Completed, Pruned: res.Pruned,
			Asserts: res.Asserts, Discharged: res.Discharged, Decisions: res.Decisions, Steps: res.Steps, Queries: res.SolverQueries,
			SolverS: res.SolverTime.Seconds(), MaxQueryS: res.MaxQuery.Seconds(), Fallbacks: res.Fallbacks, WallS: res.Wall.Seconds(), Reached: res.Reached, Cut: res.BudgetCuts,
			Unsupported: res.Unsupported, Inconclusive: res.Inconclusive, Violations: len(res.Violations), Cases: len(res.DistinctCases)}
		for k, v := range res.Funcs {
			funcs[k] += v
		}
		for _, s := range res.Samples {
			if len(samples) < 12 {
				samples = append(samples, map[string]any{"exploration": e.ID, "path": s})
			}
		}
		fmt.Printf("[%s/%s] paths=%d completed=%d pruned=%d asserts=%d discharged=%d viol=%d cut=%d unsupported=%d inconcl=%d queries=%d wall=%.1fs\n",
			prop, e.ID, res.Paths, res.Completed, res.Pruned, res.Asserts, res.Discharged, len(res.Violations), res.BudgetCuts, len(res.Unsupported), res.Inconclusive, res.SolverQueries, res.Wall.Seconds())
		if !res.Clean() {
			msg := fmt.Sprintf("%s: cut=%d unsupported=%v engine_errors=%d inconclusive=%d truncated=%v", e.ID, res.BudgetCuts, res.Unsupported, len(res.EngineErrors), res.Inconclusive, res.Truncated)
			notClean = append(notClean, msg)
			for _, ee := range res.EngineErrors {
				fmt.Println("ENGINE-ERROR:", firstLines(ee, 12))
			}
		}
		// vacuity: the main assertion must be reached
		if len(res.Reached) == 0 || res.Completed+len(res.Violations) == 0 {
			notClean = append(notClean, e.ID+": vacuous (no path reached an assertion)")
		}
		// violations: classify, replay
		classes := map[string][]interp.Violation{}
		var order []string
		for _, v := range res.Violations {
			key := v.Label + "|" + v.Tag + "|" + v.Kind
			if _, ok := classes[key]; !ok {
				order = append(order, key)
			}
			classes[key] = append(classes[key], v)
		}
		for _, key := range order {
			vs := classes[key]
			v := vs[0]
			totalViol += len(vs)
			if v.Inconclusive {
				notClean = append(notClean, e.ID+": inconclusive assertion "+v.Label)
				continue
			}
			rf := &ReplayFile{Property: prop, Pkg: e.Pkg, Harness: e.Fn, Label: v.Label, Tag: v.Tag, Kind: v.Kind, Detail: v.Detail, Inputs: v.Inputs, Params: e.Params, Choices: choiceMap(v)}
			name := fmt.Sprintf("%s__%s__%s.json", e.ID, sanitize(v.Label), sanitize(v.Tag))
			path := filepath.Join(outDir, "replays", prop, name)
			b, _ := json.MarshalIndent(rf, "", " ")
			os.WriteFile(path, b, 0o644)
			// try up to 3 witnesses of the class
			reproduced := false
			var lastOut string
			for k := 0; k < len(vs) && k < 3 && !reproduced; k++ {
				if k > 0 {
					rf.Inputs = vs[k].Inputs
					rf.Choices = choiceMap(vs[k])
					b, _ = json.MarshalIndent(rf, "", " ")
					os.WriteFile(path, b, 0o644)
				}
				if e.Replay == "symx" {
					ropt := interp.Options{Workers: 1, Params: e.Params, Fixed: rf.Inputs, FixedChoices: rf.Choices, MaxSteps: e.MaxSteps}
					if ropt.Fixed == nil {
						ropt.Fixed = map[string]string{}
					}
					rres := interp.Explore(h, ropt)
					for _, rv := range rres.Violations {
						if rv.Label == v.Label {
							reproduced = true
						}
					}
					lastOut = fmt.Sprintf("symx re-run: %d violations, observes=%v", len(rres.Violations), rres.Observes)
				} else {
					reproduced, lastOut = rp.run(path, rf)
				}
			}
			if !reproduced {
				fmt.Printf("INCONCLUSIVE property=%s exploration=%s label=%q tag=%q: solver counterexample did not reproduce natively (%d paths)\n%s\n", prop, e.ID, v.Label, v.Tag, len(vs), firstLines(lastOut, 15))
				notClean = append(notClean, e.ID+": unreproduced counterexample "+v.Label)
				continue
			}
			if kfnd := matchFinding(kf.Findings, prop, e.Fn, v.Label, v.Tag, e.ID); kfnd != nil {
				if knownHit[kfnd.What] == 0 {
					fmt.Printf("KNOWN-FINDING: property=%s %s [first seen: exploration=%s harness=%s label=%s tag=%s replay=%s]\n", prop, kfnd.What, e.ID, e.Fn, v.Label, v.Tag, path)
				}
				knownHit[kfnd.What] += len(vs)
				continue
			}
			violLines = append(violLines, fmt.Sprintf("VIOLATION property=%s replay=%s", prop, path))
			fmt.Printf("  violation class label=%q tag=%q kind=%s paths=%d detail=%q inputs=%v\n", v.Label, v.Tag, v.Kind, len(vs), v.Detail, v.Inputs)
		}
		// translator validation: run pinned inputs through the interpreter and natively, compare observations
		for _, fixed := range e.Validate {
			ok, msg := validateTrace(h, rp, prop, e, fixed, workers)
			if ok {
				validated++
				sm.Validated++
			} else {
				notClean = append(notClean, e.ID+": translator validation mismatch: "+msg)
			}
		}
		// twin (vacuity witness): thorough tier only, unless disabled
		if tier == "thorough" && !e.NoTwin && !noTwin && len(res.Violations) == 0 {
			topt := opt
			topt.Twin = true
			topt.StopOnFirst = true
			tres := interp.Explore(h, topt)
			tv := len(tres.Violations) > 0
			sm.TwinViolated = &tv
			if !tv {
				notClean = append(notClean, e.ID+": twin (assert false) was not violated: harness is vacuous")
			}
		}
		sums = append(sums, sm)
	}
	// translator validation on sampled paths: every witness must pass natively
	wOK, wBad := runWitnessBatches(rp, witnesses)
	validated += wOK
	for k := range sums {
		sums[k].Witnessed = wOKBy[sums[k].ID]
	}
	for _, m := range wBad {
		// a native assertion failure that is a listed known finding (untagged ones only: tags are
		// not known natively) is that finding showing under the real map iteration order
		if strings.HasPrefix(m.status, "assert-failed:") {
			if kfnd := matchFinding(kf.Findings, prop, m.item.Harness, strings.TrimPrefix(m.status, "assert-failed:"), "", m.item.Exploration); kfnd != nil && kfnd.Tag == "" {
				if knownHit[kfnd.What] == 0 {
					fmt.Printf("KNOWN-FINDING: property=%s %s [first seen: native re-execution of a sampled path of exploration=%s harness=%s inputs=%v]\n", prop, kfnd.What, m.item.Exploration, m.item.Harness, m.item.Inputs)
				}
				knownHit[kfnd.What]++
				continue
			}
		}
		notClean = append(notClean, "native re-execution of a sampled path disagrees: "+m.msg)
	}
	for _, l := range violLines {
		fmt.Println(l)
	}
	if len(violLines) > 0 {
		exit = 1
	} else if len(notClean) > 0 && exit == 0 {
		exit = 2
	}
	for _, m := range notClean {
		fmt.Println("NOT-CLEAN:", m)
	}
	_ = seed
	writeEvidence(prop, tier, pc, sums, funcs, len(violLines), time.Since(t0), strings.Join(notClean, "; "), samples, validated)
	fmt.Printf("[%s %s] explorations=%d violations=%d known=%d load=%.1fs total=%.1fs exit=%d\n", prop, tier, len(sums), len(violLines), len(knownHit), loadT.Seconds(), time.Since(t0).Seconds(), exit)
	_ = totalViol
	return exit
}

func firstLines(s string, n int) string {
	ls := strings.Split(s, "\n")
	if len(ls) > n {
		ls = ls[:n]
	}
	return strings.Join(ls, "\n")
}

func choiceMap(v interp.Violation) map[string]int {
	return v.ChoiceVals
}

func sanitize(s string) string {
	var sb strings.Builder
	for _, r := range s {
		if (r >= 'a' && r <= 'z') || (r >= 'A' && r <= 'Z') || (r >= '0' && r <= '9') || r == '-' || r == '_' {
			sb.WriteRune(r)
		} else {
			sb.WriteByte('_')
		}
	}
	return sb.String()
}

func matchFinding(fs []Finding, prop, harness, label, tag, explID string) *Finding {
	for k := range fs {
		f := &fs[k]
		if f.Status != "known" || f.Property != prop {
			continue
		}
		if len(f.Explorations) > 0 {
			ok := false
			for _, pre := range f.Explorations {
				if strings.HasPrefix(explID, pre) {
					ok = true
				}
			}
			if !ok {
				continue
			}
		}
		if f.Harness != "" && f.Harness != harness {
			continue
		}
		if f.Label != "" && f.Label != label {
			continue
		}
		if f.Tag != "" {
			found := false
			for _, t := range strings.Split(tag, ",") {
				if t == f.Tag {
					found = true
				}
			}
			if !found {
				continue
			}
		}
		return f
	}
	return nil
}

// validateTrace runs the harness with pinned inputs symbolically-concretely and natively and compares vxObserve logs.
func validateTrace(h *interp.Harness, rp *replayer, prop string, e Exploration, vector map[string]string, workers int) (bool, string) {
	// entries "choice:<name>" pin vxChoose values, all others are nondet inputs
	fixed := map[string]string{}
	choices := map[string]int{}
	for k, v := range vector {
		if strings.HasPrefix(k, "choice:") {
			n, _ := strconv.Atoi(v)
			choices[strings.TrimPrefix(k, "choice:")] = n
		} else {
			fixed[k] = v
		}
	}
	opt := interp.Options{Workers: 1, Params: e.Params, Fixed: fixed, FixedChoices: choices, MaxSteps: e.MaxSteps}
	res := interp.Explore(h, opt)
	if len(res.Observes) == 0 {
		return false, "no observations from interpreter"
	}
	rf := &ReplayFile{Property: prop, Pkg: e.Pkg, Harness: e.Fn, Kind: "observe", Inputs: fixed, Params: e.Params, Choices: choices}
	path := filepath.Join(os.TempDir(), fmt.Sprintf("vxval-%d.json", os.Getpid()))
	defer os.Remove(path)
	b, _ := json.Marshal(rf)
	os.WriteFile(path, b, 0o644)
	_, out := rp.run(path, rf)
	if i := strings.Index(out, "VXFAIL"); i >= 0 {
		// an assertion that only the native run evaluates (e.g. a step through the ANTLR parser) failed
		return false, "native run of the pinned vector failed an assertion: " + firstLines(out[i:], 2)
	}
	var native []string
	for _, l := range strings.Split(out, "\n") {
		if i := strings.Index(l, "VXOBS "); i >= 0 {
			native = append(native, strings.TrimSpace(l[i+6:]))
		}
	}
	want := res.Observes[0]
	// native test ran -count=8: take the first len(want)
	if len(native) < len(want) {
		return false, fmt.Sprintf("native observations %d < %d\n%s", len(native), len(want), firstLines(out, 10))
	}
	for k := range want {
		if native[k] != want[k] {
			return false, fmt.Sprintf("obs %d: interp %q native %q", k, want[k], native[k])
		}
	}
	return true, ""
}

func writeEvidence(prop, tier string, pc PropCfg, sums []exploreSummary, funcs map[string]int64, violations int, wall time.Duration, notClean string, samples []any, validated int) {
	paths, decisions, asserts, discharged, queries := 0, int64(0), 0, 0, 0
	solverS, maxQ := 0.0, 0.0
	var fnList []string
	for k := range funcs {
		fnList = append(fnList, k)
	}
	sort.Strings(fnList)
	fnCounts := map[string]int64{}
	for _, k := range fnList {
		fnCounts[k] = funcs[k]
	}
	for _, s := range sums {
		paths += s.Paths
		decisions += s.Decisions
		asserts += s.Asserts
		discharged += s.Discharged
		queries += s.Queries
		solverS += s.SolverS
		if s.MaxQueryS > maxQ {
			maxQ = s.MaxQueryS
		}
	}
	if len(samples) == 0 {
		samples = []any{map[string]any{"note": "no completed path produced a sample"}}
	}
	seed, _ := strconv.Atoi(os.Getenv("VERIF_SEED"))
	level := pc.Level
	if level == "" {
		level = "model_checking"
	}
	cov := map[string]any{
		"states":                        paths,
		"transitions":                   decisions,
		"traces_validated_against_impl": validated,
		"samples":                       samples,
		"obligations":                   asserts,
		"discharged":                    discharged,
		"explanation":                   "bounded symbolic execution of the go/ssa form of the listed mangle functions; states = execution paths (each an equivalence class of inputs), transitions = solver-decided branch decisions; obligations = assertion queries, discharged = answered unsat",
		"evaluations":                   paths,
		"distinct_nontrivial":           paths,
		"rule":                          "one evaluation per feasible execution path of a harness; paths are pairwise disjoint input classes by construction (distinct decision sequences)",
		"explorations":                  sums,
		"functions_encoded":             fnCounts,
		"functions_encoded_count":       len(fnCounts),
		"solver":                        map[string]any{"name": "z3 (z3 -in, SMT-LIB2, QF_ABVFP fragment, no set-logic)", "queries": queries, "solver_s": solverS, "max_query_s": maxQ},
		"stubs":                         pc.Stubs,
		"outside_claim":                 pc.Outside,
		"not_clean":                     notClean,
		"exhaustive":                    notClean == "",
	}
	ev := map[string]any{
		"property_id": prop,
		"tier":        tier,
		"seed":        seed,
		"level":       level,
		"coverage":    cov,
		"assumptions": pc.Assumptions,
		"wall_s":      wall.Seconds(),
		"violations":  violations,
	}
	b, _ := json.MarshalIndent(ev, "", " ")
	os.MkdirAll(filepath.Join(outDir, "evidence"), 0o755)
	os.WriteFile(filepath.Join(outDir, "evidence", prop+".json"), b, 0o644)
}

// ---------------------------------------------------------------- replay subcommand

func cmdReplay(args []string) int {
	if len(args) < 1 {
		fmt.Fprintln(os.Stderr, "usage: symx replay <file.json>")
		return 2
	}
	var rf ReplayFile
	if err := loadJSON(args[0], &rf); err != nil {
		fmt.Println(err)
		return 2
	}
	rp := &replayer{}
	defer rp.cleanup()
	abs, _ := filepath.Abs(args[0])
	ok, out := rp.run(abs, &rf)
	fmt.Println(firstLines(out, 40))
	if ok {
		fmt.Printf("VIOLATION property=%s replay=%s\n", rf.Property, abs)
		return 1
	}
	fmt.Println("not reproduced")
	return 0
}
