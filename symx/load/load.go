// Package load builds the SSA program for /repo's current working tree with
// the harness overlay applied.
package load

import (
	"fmt"
	"os"
	"path/filepath"
	"sort"
	"strings"

	"golang.org/x/tools/go/packages"
	"golang.org/x/tools/go/ssa"
	"golang.org/x/tools/go/ssa/ssautil"
)

const ModulePath = "codeberg.org/TauCeti/mangle-go"

// Overlay collects every file under harnessRoot/<pkgdir>/*.go as an overlay
// entry /repo/<pkgdir>/<file>, and rtRoot/*.go as /repo/internal/zzvxrt/*.go.
func Overlay(repo, harnessRoot, rtRoot string, includeTests bool) (map[string][]byte, error) {
	ov := map[string][]byte{}
	err := filepath.Walk(harnessRoot, func(p string, info os.FileInfo, err error) error {
		if err != nil {
			return err
		}
		if info.IsDir() || !strings.HasSuffix(p, ".go") {
			return nil
		}
		if strings.HasSuffix(p, "_test.go") && !includeTests {
			return nil
		}
		rel, _ := filepath.Rel(harnessRoot, p)
		b, err := os.ReadFile(p)
		if err != nil {
			return err
		}
		ov[filepath.Join(repo, rel)] = b
		return nil
	})
	if err != nil {
		return nil, err
	}
	if rtRoot != "" {
		ents, _ := os.ReadDir(rtRoot)
		for _, e := range ents {
			if strings.HasSuffix(e.Name(), ".go") {
				b, err := os.ReadFile(filepath.Join(rtRoot, e.Name()))
				if err != nil {
					return nil, err
				}
				ov[filepath.Join(repo, "internal", "zzvxrt", e.Name())] = b
			}
		}
	}
	return ov, nil
}

// Program is a loaded SSA program.
type Program struct {
	Prog *ssa.Program
	Pkgs map[string]*ssa.Package // by package dir relative to repo ("engine")
}

// Load loads the packages ./<dir> for each dir, with the overlay.
func Load(repo string, overlay map[string][]byte, dirs []string) (*Program, error) {
	os.Setenv("PATH", "/opt/veriftools/go1.26.8/bin:"+os.Getenv("PATH"))
	os.Setenv("GOTOOLCHAIN", "local")
	cfg := &packages.Config{Mode: packages.LoadAllSyntax, Dir: repo, Overlay: overlay,
		Env: append(os.Environ(), "GOFLAGS=-mod=mod", "GOPROXY=off", "GOTOOLCHAIN=local", "PATH=/opt/veriftools/go1.26.8/bin:"+os.Getenv("PATH"))}
	var pats []string
	for _, d := range dirs {
		pats = append(pats, "./"+d)
	}
	pkgs, err := packages.Load(cfg, pats...)
	if err != nil {
		return nil, err
	}
	var errs []string
	packages.Visit(pkgs, nil, func(p *packages.Package) {
		for _, e := range p.Errors {
			errs = append(errs, e.Error())
		}
	})
	if len(errs) > 0 {
		sort.Strings(errs)
		if len(errs) > 20 {
			errs = errs[:20]
		}
		return nil, fmt.Errorf("package load errors:\n%s", strings.Join(errs, "\n"))
	}
	prog, spkgs := ssautil.AllPackages(pkgs, ssa.InstantiateGenerics)
	prog.Build()
	out := &Program{Prog: prog, Pkgs: map[string]*ssa.Package{}}
	for i, p := range pkgs {
		rel := strings.TrimPrefix(strings.TrimPrefix(p.PkgPath, ModulePath), "/")
		out.Pkgs[rel] = spkgs[i]
	}
	return out, nil
}

// IsTarget reports whether p is a mangle package (interpreted as written).
func IsTarget(p *ssa.Package) bool {
	return p != nil && p.Pkg != nil && strings.HasPrefix(p.Pkg.Path(), ModulePath)
}
