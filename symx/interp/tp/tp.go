package tp

import "go/types"

func MustDeref(t types.Type) types.Type {
	if p, ok := t.Underlying().(*types.Pointer); ok {
		return p.Elem()
	}
	panic("not a pointer: " + t.String())
}
