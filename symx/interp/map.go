package interp

import (
	"go/types"
)

type entry struct {
	key   value
	value value
}

// hashmap: insertion-ordered association list with decision-based key
// equality (keys may contain symbolic parts).
type hashmap struct {
	keyType types.Type
	ents    []*entry
}

func makeMap(kt types.Type, reserve int64) value {
	return &hashmap{keyType: kt}
}

func checkHashable(k value) {
	if ifc, ok := k.(iface); ok && ifc.t != nil {
		if !types.Comparable(ifc.t) {
			panic(targetPanic{rtErr("hash of unhashable type " + ifc.t.String())})
		}
		checkHashable(ifc.v)
		return
	}
	switch x := k.(type) {
	case structure:
		for _, f := range x {
			checkHashable(f)
		}
	case array:
		for _, f := range x {
			checkHashable(f)
		}
	}
}

func (m *hashmap) find(i *interpreter, k value) int {
	checkHashable(k)
	ks := containsSym(k)
	for idx, e := range m.ents {
		if !ks && !containsSym(e.key) {
			if equalsConcrete(m.keyType, k, e.key) {
				return idx
			}
			continue
		}
		if i.ps.decideV(symEq(m.keyType, k, e.key)) {
			return idx
		}
	}
	return -1
}

func (m *hashmap) delete(i *interpreter, k value) {
	if m != nil {
		if idx := m.find(i, k); idx >= 0 {
			m.ents = append(m.ents[:idx:idx], m.ents[idx+1:]...)
		}
	}
}

func (m *hashmap) lookup(i *interpreter, k value) value {
	if m != nil {
		if idx := m.find(i, k); idx >= 0 {
			return m.ents[idx].value
		}
	}
	return nil
}

func (m *hashmap) insert(i *interpreter, k value, v value) {
	if idx := m.find(i, k); idx >= 0 {
		m.ents[idx].value = v
		return
	}
	m.ents = append(m.ents, &entry{k, v})
}

func (m *hashmap) len() int {
	if m != nil {
		return len(m.ents)
	}
	return 0
}

// Map iteration order policies (Go leaves the order unspecified).
const (
	OrderInsertion = iota
	OrderReverse
	OrderRotate1
	OrderRotate2
	OrderPermute // each range picks its order by choose() when len <= 3
)

func newHashmapIter(i *interpreter, m *hashmap) iter {
	var es []*entry
	if m != nil {
		es = append(es, m.ents...)
	}
	n := len(es)
	switch i.ps.MapOrder {
	case OrderReverse:
		for a, b := 0, n-1; a < b; a, b = a+1, b-1 {
			es[a], es[b] = es[b], es[a]
		}
	case OrderRotate1, OrderRotate2:
		if n > 1 {
			r := (i.ps.MapOrder - OrderRotate1 + 1) % n
			es = append(es[r:], es[:r]...)
		}
	case OrderPermute:
		if n == 2 {
			if i.ps.choose(2) == 1 {
				es[0], es[1] = es[1], es[0]
			}
		} else if n == 3 {
			perms := [6][3]int{{0, 1, 2}, {0, 2, 1}, {1, 0, 2}, {1, 2, 0}, {2, 0, 1}, {2, 1, 0}}
			p := perms[i.ps.choose(6)]
			es = []*entry{es[p[0]], es[p[1]], es[p[2]]}
		}
	}
	return &hashmapIter{m: m, ents: es}
}
