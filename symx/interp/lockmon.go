package interp

// Lock-discipline monitor for C18 (filled in later).
type lockMonitor struct {
	violations []string
}

func (i *interpreter) lockWatch(a, b value) {}
