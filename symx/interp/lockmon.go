package interp

// M-rwmutex: sync.RWMutex as a state machine, and the lock-discipline monitor of C18.
//
// Obligations checked on every path (violations are collected, the harness asserts there are none):
//  (i)   every call from outside into a method of the watched (wrapped) store happens while the
//        watched mutex is held: in write mode for Add/Remove/Merge, in read or write mode otherwise;
//  (ii)  every method of the guarding type releases exactly what it acquired (mutex free on return);
//  (iii) every method of the guarding type has a single critical section: it acquires the mutex at
//        most once, and all its calls into the wrapped store lie inside that one section.

import (
	"fmt"
	"go/types"

	"golang.org/x/tools/go/ssa"
)

type muState struct {
	writer  bool
	readers int
}

type lockMonitor struct {
	mu         map[*value]*muState
	watchedMu  *value
	baseType   types.Type // dynamic type of the wrapped store
	guardType  string     // name of the guarding type (e.g. ConcurrentFactStore)
	violations []string
	baseDepth  int // > 0 while inside a method of the wrapped store
	guardDepth int
	acquired   int // acquisitions of the watched mutex in the current guard method
	section    int // index of the current critical section within the guard method (0 = none yet)
	baseSect   map[int]bool
	guardName  string
}

func (i *interpreter) lm() *lockMonitor {
	if i.lockMon == nil {
		i.lockMon = &lockMonitor{mu: map[*value]*muState{}}
	}
	return i.lockMon
}

func (m *lockMonitor) state(p *value) *muState {
	s := m.mu[p]
	if s == nil {
		s = &muState{}
		m.mu[p] = s
	}
	return s
}

func (m *lockMonitor) viol(format string, a ...any) {
	m.violations = append(m.violations, fmt.Sprintf(format, a...))
}

// lockWatch(base any, mu *sync.RWMutex)
func (i *interpreter) lockWatch(base, mu value) {
	m := i.lm()
	if ifc, ok := base.(iface); ok {
		m.baseType = ifc.t
	}
	if ifc, ok := mu.(iface); ok {
		mu = ifc.v
	}
	m.watchedMu, _ = mu.(*value)
	if m.watchedMu == nil {
		panic(engineError{"vxLockWatch: second argument is not a *sync.RWMutex"})
	}
	m.guardType = "ConcurrentFactStore"
}

func init() {
	externals["(*sync.RWMutex).Lock"] = func(fr *frame, a []value) value {
		m := fr.i.lm()
		p := a[0].(*value)
		if p == nil {
			panic(nilDeref())
		}
		s := m.state(p)
		if s.writer || s.readers > 0 {
			panic(targetPanic{rtErrorValue("fatal error: all goroutines are asleep - deadlock! (Lock of a held RWMutex)")})
		}
		s.writer = true
		if p == m.watchedMu && m.guardDepth > 0 {
			m.acquired++
			m.section++
		}
		return nil
	}
	externals["(*sync.RWMutex).Unlock"] = func(fr *frame, a []value) value {
		m := fr.i.lm()
		s := m.state(a[0].(*value))
		if !s.writer {
			panic(targetPanic{rtErrorValue("fatal error: sync: Unlock of unlocked RWMutex")})
		}
		s.writer = false
		return nil
	}
	externals["(*sync.RWMutex).RLock"] = func(fr *frame, a []value) value {
		m := fr.i.lm()
		p := a[0].(*value)
		if p == nil {
			panic(nilDeref())
		}
		s := m.state(p)
		if s.writer {
			panic(targetPanic{rtErrorValue("fatal error: all goroutines are asleep - deadlock! (RLock of a write-locked RWMutex)")})
		}
		s.readers++
		if p == m.watchedMu && m.guardDepth > 0 {
			m.acquired++
			m.section++
		}
		return nil
	}
	externals["(*sync.RWMutex).RUnlock"] = func(fr *frame, a []value) value {
		m := fr.i.lm()
		s := m.state(a[0].(*value))
		if s.readers <= 0 {
			panic(targetPanic{rtErrorValue("fatal error: sync: RUnlock of unlocked RWMutex")})
		}
		s.readers--
		return nil
	}
}

func recvNamed(fn *ssa.Function) (string, types.Type) {
	r := fn.Signature.Recv()
	if r == nil {
		return "", nil
	}
	t := r.Type()
	if p, ok := t.(*types.Pointer); ok {
		t = p.Elem()
	}
	if n, ok := t.(*types.Named); ok {
		return n.Obj().Name(), r.Type()
	}
	return "", r.Type()
}

var mutatingMethods = map[string]bool{"Add": true, "Remove": true, "Merge": true}

// lockEnter is called on entry of every interpreted function when a monitor is active;
// it returns a function to run on exit (or nil).
func (m *lockMonitor) lockEnter(fn *ssa.Function) func() {
	if m.watchedMu == nil || fn.Parent() != nil {
		return nil
	}
	name, rt := recvNamed(fn)
	if name == "" {
		return nil
	}
	if name == m.guardType && fn.Synthetic == "" {
		if m.guardDepth > 0 {
			return nil
		}
		m.guardDepth++
		m.acquired, m.section = 0, 0
		m.baseSect = map[int]bool{}
		m.guardName = fn.Name()
		return func() {
			m.guardDepth--
			s := m.state(m.watchedMu)
			if s.writer || s.readers > 0 {
				m.viol("%s.%s returns with the mutex still held", m.guardType, fn.Name())
				s.writer, s.readers = false, 0
			}
			if m.acquired > 1 {
				m.viol("%s.%s acquires the mutex %d times: the operation is not one critical section", m.guardType, fn.Name(), m.acquired)
			}
			if len(m.baseSect) > 1 {
				m.viol("%s.%s calls the wrapped store from %d different critical sections", m.guardType, fn.Name(), len(m.baseSect))
			}
		}
	}
	// a method of the wrapped store?
	bt := m.baseType
	if bt == nil {
		return nil
	}
	if p, ok := bt.(*types.Pointer); ok {
		bt = p.Elem()
	}
	rbt := rt
	if p, ok := rbt.(*types.Pointer); ok {
		rbt = p.Elem()
	}
	if !types.Identical(bt, rbt) {
		return nil
	}
	if m.baseDepth > 0 {
		m.baseDepth++
		return func() { m.baseDepth-- }
	}
	m.baseDepth++
	s := m.state(m.watchedMu)
	if mutatingMethods[fn.Name()] {
		if !s.writer {
			m.viol("wrapped store method %s (a write) called from %s.%s without the write lock (held: writer=%v readers=%d)", fn.Name(), m.guardType, m.guardName, s.writer, s.readers)
		}
	} else if !s.writer && s.readers == 0 {
		m.viol("wrapped store method %s called from %s.%s without holding the lock", fn.Name(), m.guardType, m.guardName)
	}
	if m.guardDepth > 0 {
		m.baseSect[m.section] = true
	}
	return func() { m.baseDepth-- }
}
