package interp

// Memory access with symbolic indices, UTF-8 over symbolic bytes, min/max.

import (
	"fmt"
	"go/token"
	"go/types"
	"unicode/utf8"
)

const tokLSS = token.LSS

// symptr is the address of elems[idx] for a symbolic, in-range idx.
type symptr struct {
	elems []value
	idx   sym
}

func nilDeref() targetPanic {
	return targetPanic{rtErr("invalid memory address or nil pointer dereference")}
}

// concretizeIndex turns a possibly symbolic integer into a concrete one in
// [0,limit) by case split; out-of-range values take the panic path at the caller
// (returned as -1 / limit are not used: we return a value outside the range).
func (i *interpreter) concretizeIndex(v value, limit int64) int64 {
	sx, ok := v.(sym)
	if !ok {
		return asInt64(v)
	}
	w := sx.k.width()
	// in range?
	inRange := indexInRange(sx, limit)
	if !i.ps.decideV(inRange) {
		return -1
	}
	for k := int64(0); k < limit-1; k++ {
		if i.ps.decide(sym{kBool, "(= " + sx.t + " " + bvLit(uint64(k), w) + ")"}) {
			return k
		}
	}
	return limit - 1
}

// indexInRange builds 0 <= x < limit for an index of any integer kind; a limit that does
// not fit the index type (e.g. a uint8 index into a [256]T array) cannot be exceeded.
func indexInRange(sx sym, limit int64) value {
	w := sx.k.width()
	if sx.k.signed() {
		lower := "(bvsge " + sx.t + " " + bvLit(0, w) + ")"
		if w < 64 && limit >= int64(1)<<uint(w-1) {
			return sym{kBool, lower}
		}
		return sym{kBool, "(and " + lower + " (bvslt " + sx.t + " " + bvLit(uint64(limit), w) + "))"}
	}
	if w < 64 && limit >= int64(1)<<uint(w) {
		return true
	}
	return sym{kBool, "(bvult " + sx.t + " " + bvLit(uint64(limit), w) + ")"}
}

func idxPanic(idx, n int64) targetPanic {
	return targetPanic{rtErr(fmt.Sprintf("index out of range [%d] with length %d", idx, n))}
}

func (i *interpreter) indexAddr(x, idx value) value {
	var elems []value
	switch x := x.(type) {
	case []value:
		elems = x
	case *value: // *array
		if x == nil {
			panic(nilDeref())
		}
		elems = (*x).(array)
	default:
		panic(fmt.Sprintf("unexpected x type in IndexAddr: %T", x))
	}
	n := int64(len(elems))
	if sx, ok := idx.(sym); ok {
		if n > 4 {
			// keep the index symbolic when all elements are scalars
			allScalar := true
			for _, e := range elems {
				if _, ok := kindOfValue(e); !ok {
					allScalar = false
					break
				}
			}
			if allScalar {
				inRange := indexInRange(sx, n)
				if !i.ps.decideV(inRange) {
					panic(idxPanic(-1, n))
				}
				return symptr{elems, sx}
			}
		}
		k := i.concretizeIndex(idx, n)
		if k < 0 || k >= n {
			panic(idxPanic(k, n))
		}
		return &elems[k]
	}
	k := asInt64(idx)
	if k < 0 || k >= n {
		panic(idxPanic(k, n))
	}
	return &elems[k]
}

func (i *interpreter) index(x, idx value) value {
	switch x := x.(type) {
	case array:
		p := i.indexAddr(func() value { var v value = x; return &v }(), idx)
		return i.loadFrom(nil, p)
	case string:
		n := int64(len(x))
		if sx, ok := idx.(sym); ok && n > 4 {
			bs := strBytes(x)
			p := i.indexAddr(bs, sx)
			return i.loadFrom(nil, p)
		}
		k := i.concretizeIndex(idx, n)
		if k < 0 || k >= n {
			panic(idxPanic(k, n))
		}
		return x[k]
	case symstr:
		n := int64(len(x.b))
		if sx, ok := idx.(sym); ok && n > 4 {
			p := i.indexAddr(x.b, sx)
			return i.loadFrom(nil, p)
		}
		k := i.concretizeIndex(idx, n)
		if k < 0 || k >= n {
			panic(idxPanic(k, n))
		}
		return x.b[k]
	}
	panic(fmt.Sprintf("unexpected x type in Index: %T", x))
}

func (i *interpreter) fieldAddr(x value, field int) value {
	switch p := x.(type) {
	case *value:
		if p == nil {
			panic(nilDeref())
		}
		return &(*p).(structure)[field]
	case symptr:
		// resolve the index by case split
		q := i.resolveSymptr(p)
		return &(*q).(structure)[field]
	}
	panic(fmt.Sprintf("unexpected x type in FieldAddr: %T", x))
}

func (i *interpreter) resolveSymptr(p symptr) *value {
	n := len(p.elems)
	w := p.idx.k.width()
	for k := 0; k < n-1; k++ {
		if i.ps.decide(sym{kBool, "(= " + p.idx.t + " " + bvLit(uint64(k), w) + ")"}) {
			return &p.elems[k]
		}
	}
	return &p.elems[n-1]
}

func (i *interpreter) loadFrom(T types.Type, addr value) value {
	switch p := addr.(type) {
	case *value:
		if p == nil {
			panic(nilDeref())
		}
		if T == nil {
			return *p
		}
		return load(T, p)
	case symptr:
		n := len(p.elems)
		w := p.idx.k.width()
		// ite chain over scalar elements; group equal consecutive values
		res := p.elems[n-1]
		for k := n - 2; k >= 0; k-- {
			if term(p.elems[k]) == term(p.elems[k+1]) {
				continue
			}
			// idx <= k ? elems[k] : res   (valid because later equal runs were merged)
			res = symIteRaw("(bvule "+p.idx.t+" "+bvLit(uint64(k), w)+")", p.elems[k], res)
		}
		if sv, ok := res.(sym); ok {
			return i.ps.name(sv)
		}
		return res
	}
	panic(fmt.Sprintf("load from %T", addr))
}

func symIteRaw(c string, a, b value) value {
	k, _ := kindOfValue(a)
	return sym{k, "(ite " + c + " " + term(a) + " " + term(b) + ")"}
}

func (i *interpreter) storeTo(T types.Type, addr value, v value) {
	switch p := addr.(type) {
	case *value:
		if p == nil {
			panic(nilDeref())
		}
		store(T, p, v)
	case symptr:
		w := p.idx.k.width()
		for k := range p.elems {
			c := sym{kBool, "(= " + p.idx.t + " " + bvLit(uint64(k), w) + ")"}
			p.elems[k] = symIte(c, v, p.elems[k])
		}
	default:
		panic(fmt.Sprintf("store to %T", addr))
	}
}

// ---- min / max builtins ----

func (i *interpreter) symMin(x, y value) value {
	if isSym(x) || isSym(y) {
		return symIte(i.symBinop(tokLSS, x, y), x, y)
	}
	if isStr(x) {
		if _, ok := x.(symstr); ok {
			panic(engineError{"min on symbolic strings"})
		}
	}
	return min(x, y)
}

func (i *interpreter) symMax(x, y value) value {
	if isSym(x) || isSym(y) {
		return symIte(i.symBinop(tokLSS, x, y), y, x)
	}
	return max(x, y)
}

// ---- UTF-8 over symbolic bytes ----

func u8lit(c uint8) string { return bvLit(uint64(c), 8) }

// byteIn decides lo <= b <= hi for a (possibly symbolic) byte.
func (i *interpreter) byteIn(b value, lo, hi uint8) bool {
	if c, ok := b.(uint8); ok {
		return lo <= c && c <= hi
	}
	t := b.(sym).t
	if lo == 0 {
		return i.ps.decide(sym{kBool, "(bvule " + t + " " + u8lit(hi) + ")"})
	}
	if hi == 0xff {
		return i.ps.decide(sym{kBool, "(bvuge " + t + " " + u8lit(lo) + ")"})
	}
	return i.ps.decide(sym{kBool, "(and (bvuge " + t + " " + u8lit(lo) + ") (bvule " + t + " " + u8lit(hi) + "))"})
}

func zext32(b value, mask uint8) string {
	if c, ok := b.(uint8); ok {
		return bvLit(uint64(c&mask), 32)
	}
	return "((_ zero_extend 24) (bvand " + b.(sym).t + " " + u8lit(mask) + "))"
}

// decodeRune decodes one rune at the start of bs (Go semantics: invalid → U+FFFD, width 1).
func (i *interpreter) decodeRune(bs []value) (value, int) {
	n := len(bs)
	if n == 0 {
		return rune(utf8.RuneError), 0
	}
	b0 := bs[0]
	allC := true
	for k := 0; k < n && k < 4; k++ {
		if _, ok := bs[k].(uint8); !ok {
			allC = false
		}
	}
	if allC {
		raw := make([]byte, 0, 4)
		for k := 0; k < n && k < 4; k++ {
			raw = append(raw, bs[k].(uint8))
		}
		r, sz := utf8.DecodeRune(raw)
		return r, sz
	}
	bad := func() (value, int) { return rune(utf8.RuneError), 1 }
	mk := func(t string) value { return i.ps.name(sym{kI32, t}) }
	if i.byteIn(b0, 0, 0x7f) {
		if c, ok := b0.(uint8); ok {
			return rune(c), 1
		}
		return mk("((_ zero_extend 24) " + b0.(sym).t + ")"), 1
	}
	if i.byteIn(b0, 0, 0xc1) {
		return bad()
	}
	cont := func(k int, lo, hi uint8) bool { return k < n && i.byteIn(bs[k], lo, hi) }
	if i.byteIn(b0, 0xc2, 0xdf) {
		if !cont(1, 0x80, 0xbf) {
			return bad()
		}
		return mk("(bvor (bvshl " + zext32(b0, 0x1f) + " #x00000006) " + zext32(bs[1], 0x3f) + ")"), 2
	}
	three := func(lo, hi uint8) (value, int) {
		if !cont(1, lo, hi) || !cont(2, 0x80, 0xbf) {
			return bad()
		}
		return mk("(bvor (bvshl " + zext32(b0, 0x0f) + " #x0000000c) (bvor (bvshl " + zext32(bs[1], 0x3f) + " #x00000006) " + zext32(bs[2], 0x3f) + "))"), 3
	}
	four := func(lo, hi uint8) (value, int) {
		if !cont(1, lo, hi) || !cont(2, 0x80, 0xbf) || !cont(3, 0x80, 0xbf) {
			return bad()
		}
		return mk("(bvor (bvshl " + zext32(b0, 0x07) + " #x00000012) (bvor (bvshl " + zext32(bs[1], 0x3f) + " #x0000000c) (bvor (bvshl " + zext32(bs[2], 0x3f) + " #x00000006) " + zext32(bs[3], 0x3f) + ")))"), 4
	}
	switch {
	case i.byteIn(b0, 0xe0, 0xe0):
		return three(0xa0, 0xbf)
	case i.byteIn(b0, 0xe1, 0xec):
		return three(0x80, 0xbf)
	case i.byteIn(b0, 0xed, 0xed):
		return three(0x80, 0x9f)
	case i.byteIn(b0, 0xee, 0xef):
		return three(0x80, 0xbf)
	case i.byteIn(b0, 0xf0, 0xf0):
		return four(0x90, 0xbf)
	case i.byteIn(b0, 0xf1, 0xf3):
		return four(0x80, 0xbf)
	case i.byteIn(b0, 0xf4, 0xf4):
		return four(0x80, 0x8f)
	}
	return bad()
}

type symStringIter struct {
	i   *interpreter
	b   []value
	pos int
}

func (it *symStringIter) next() tuple {
	okv := make(tuple, 3)
	if it.pos >= len(it.b) {
		okv[0] = false
		return okv
	}
	r, n := it.i.decodeRune(it.b[it.pos:])
	okv[0] = true
	okv[1] = it.pos
	okv[2] = r
	it.pos += n
	return okv
}

// runeToString implements string(r) for a symbolic integer r.
func (i *interpreter) runeToString(r sym) value {
	// widen to 32 bits (values outside rune range become U+FFFD)
	var t string
	w := r.k.width()
	switch {
	case w == 32:
		t = r.t
	case w < 32:
		if r.k.signed() {
			t = fmt.Sprintf("((_ sign_extend %d) %s)", 32-w, r.t)
		} else {
			t = fmt.Sprintf("((_ zero_extend %d) %s)", 32-w, r.t)
		}
	default:
		// 64-bit: out of int32 range → RuneError
		fits := sym{kBool, "(= ((_ sign_extend 32) ((_ extract 31 0) " + r.t + ")) " + r.t + ")"}
		if !i.ps.decide(fits) {
			return string(utf8.RuneError)
		}
		t = "((_ extract 31 0) " + r.t + ")"
	}
	x := i.ps.name(sym{kU32, t}).(sym).t
	lit := func(u uint32) string { return bvLit(uint64(u), 32) }
	le := func(u uint32) bool { return i.ps.decide(sym{kBool, "(bvule " + x + " " + lit(u) + ")"}) }
	b := func(shift uint, mask, or uint8) value {
		return i.ps.name(sym{kU8, fmt.Sprintf("(bvor ((_ extract 7 0) (bvand (bvlshr %s %s) %s)) %s)", x, lit(uint32(shift)), lit(uint32(mask)), u8lit(or))})
	}
	switch {
	case le(0x7f):
		return mkStr([]value{i.ps.name(sym{kU8, "((_ extract 7 0) " + x + ")"})})
	case le(0x7ff):
		return mkStr([]value{b(6, 0x1f, 0xc0), b(0, 0x3f, 0x80)})
	case le(0xd7ff):
		return mkStr([]value{b(12, 0x0f, 0xe0), b(6, 0x3f, 0x80), b(0, 0x3f, 0x80)})
	case le(0xdfff):
		return string(utf8.RuneError)
	case le(0xffff):
		return mkStr([]value{b(12, 0x0f, 0xe0), b(6, 0x3f, 0x80), b(0, 0x3f, 0x80)})
	case le(0x10ffff):
		return mkStr([]value{b(18, 0x07, 0xf0), b(12, 0x3f, 0x80), b(6, 0x3f, 0x80), b(0, 0x3f, 0x80)})
	}
	return string(utf8.RuneError)
}

const (
	tokADD = token.ADD
	tokSUB = token.SUB
	tokEQL = token.EQL
)
