package interp

// Symbolic scalars and strings: term construction (SMT-LIB2 text).

import (
	"fmt"
	"go/token"
	"go/types"
	"math"
	"strings"
)

type skind uint8

const (
	kBool skind = iota
	kI8
	kI16
	kI32
	kI64
	kInt
	kU8
	kU16
	kU32
	kU64
	kUint
	kUintptr
	kF64
)

func (k skind) width() int {
	switch k {
	case kI8, kU8:
		return 8
	case kI16, kU16:
		return 16
	case kI32, kU32:
		return 32
	case kBool:
		return 0
	}
	return 64
}

func (k skind) signed() bool { return k >= kI8 && k <= kInt }
func (k skind) isInt() bool  { return k >= kI8 && k <= kUintptr }

func (k skind) sort() string {
	switch k {
	case kBool:
		return "Bool"
	case kF64:
		return "(_ FloatingPoint 11 53)"
	}
	return fmt.Sprintf("(_ BitVec %d)", k.width())
}

// sym is a symbolic scalar.
type sym struct {
	k skind
	t string // SMT-LIB term
}

func isSym(v value) bool { _, ok := v.(sym); return ok }

func kindOfBasic(b *types.Basic) (skind, bool) {
	switch b.Kind() {
	case types.Bool, types.UntypedBool:
		return kBool, true
	case types.Int, types.UntypedInt:
		return kInt, true
	case types.Int8:
		return kI8, true
	case types.Int16:
		return kI16, true
	case types.Int32, types.UntypedRune:
		return kI32, true
	case types.Int64:
		return kI64, true
	case types.Uint:
		return kUint, true
	case types.Uint8:
		return kU8, true
	case types.Uint16:
		return kU16, true
	case types.Uint32:
		return kU32, true
	case types.Uint64:
		return kU64, true
	case types.Uintptr:
		return kUintptr, true
	case types.Float64, types.UntypedFloat:
		return kF64, true
	}
	return 0, false
}

func kindOfValue(v value) (skind, bool) {
	switch x := v.(type) {
	case sym:
		return x.k, true
	case bool:
		return kBool, true
	case int:
		return kInt, true
	case int8:
		return kI8, true
	case int16:
		return kI16, true
	case int32:
		return kI32, true
	case int64:
		return kI64, true
	case uint:
		return kUint, true
	case uint8:
		return kU8, true
	case uint16:
		return kU16, true
	case uint32:
		return kU32, true
	case uint64:
		return kU64, true
	case uintptr:
		return kUintptr, true
	case float64:
		return kF64, true
	}
	return 0, false
}

func bvLit(u uint64, w int) string {
	switch w {
	case 8:
		return fmt.Sprintf("#x%02x", uint8(u))
	case 16:
		return fmt.Sprintf("#x%04x", uint16(u))
	case 32:
		return fmt.Sprintf("#x%08x", uint32(u))
	}
	return fmt.Sprintf("#x%016x", u)
}

func fpLit(f float64) string {
	return "((_ to_fp 11 53) " + bvLit(math.Float64bits(f), 64) + ")"
}

// term returns the SMT term of a scalar value (concrete or symbolic).
func term(v value) string {
	switch x := v.(type) {
	case sym:
		return x.t
	case bool:
		if x {
			return "true"
		}
		return "false"
	case float64:
		return fpLit(x)
	}
	if k, ok := kindOfValue(v); ok && k.isInt() {
		return bvLit(uint64(asInt64(v)), k.width())
	}
	panic(engineError{fmt.Sprintf("term: unsupported %T", v)})
}

// concreteOf converts an unsigned 64-bit pattern to a Go value of kind k.
func concreteOf(k skind, u uint64) value {
	switch k {
	case kBool:
		return u != 0
	case kI8:
		return int8(u)
	case kI16:
		return int16(u)
	case kI32:
		return int32(u)
	case kI64:
		return int64(u)
	case kInt:
		return int(u)
	case kU8:
		return uint8(u)
	case kU16:
		return uint16(u)
	case kU32:
		return uint32(u)
	case kU64:
		return u
	case kUint:
		return uint(u)
	case kUintptr:
		return uintptr(u)
	case kF64:
		return math.Float64frombits(u)
	}
	panic("concreteOf")
}

type engineError struct{ msg string }

func (e engineError) Error() string { return "symx engine: " + e.msg }

func mkBool(t string) value {
	switch t {
	case "true":
		return true
	case "false":
		return false
	}
	return sym{kBool, t}
}

func symNot(v value) value {
	switch x := v.(type) {
	case bool:
		return !x
	case sym:
		if strings.HasPrefix(x.t, "(not ") {
			return sym{kBool, x.t[5 : len(x.t)-1]}
		}
		return sym{kBool, "(not " + x.t + ")"}
	}
	panic(engineError{"symNot"})
}

func symAnd(a, b value) value {
	if ab, ok := a.(bool); ok {
		if !ab {
			return false
		}
		return b
	}
	if bb, ok := b.(bool); ok {
		if !bb {
			return false
		}
		return a
	}
	return sym{kBool, "(and " + a.(sym).t + " " + b.(sym).t + ")"}
}

func symOr(a, b value) value {
	if ab, ok := a.(bool); ok {
		if ab {
			return true
		}
		return b
	}
	if bb, ok := b.(bool); ok {
		if bb {
			return true
		}
		return a
	}
	return sym{kBool, "(or " + a.(sym).t + " " + b.(sym).t + ")"}
}

// symIte builds ite(c, a, b) over scalars of the same kind.
func symIte(c value, a, b value) value {
	if cb, ok := c.(bool); ok {
		if cb {
			return a
		}
		return b
	}
	k, _ := kindOfValue(a)
	ta, tb := term(a), term(b)
	if ta == tb {
		return a
	}
	return sym{k, "(ite " + c.(sym).t + " " + ta + " " + tb + ")"}
}

// scalarEq builds x == y for two scalars of the same kind.
func scalarEq(x, y value) value {
	k, _ := kindOfValue(x)
	a, b := term(x), term(y)
	if k == kF64 {
		return sym{kBool, "(fp.eq " + a + " " + b + ")"}
	}
	if a == b {
		return true
	}
	if a > b {
		a, b = b, a
	}
	return sym{kBool, "(= " + a + " " + b + ")"}
}

func (i *interpreter) symBinop(op token.Token, x, y value) value {
	k, ok := kindOfValue(x)
	if !ok {
		panic(engineError{fmt.Sprintf("symBinop: operand %T", x)})
	}
	if k == kBool {
		switch op {
		case token.EQL:
			a, b := term(x), term(y)
			if a == b {
				return true
			}
			return sym{kBool, "(= " + a + " " + b + ")"}
		case token.NEQ:
			a, b := term(x), term(y)
			if a == b {
				return false
			}
			return sym{kBool, "(not (= " + a + " " + b + "))"}
		}
		panic(engineError{"symBinop: bool op " + op.String()})
	}
	if k == kF64 {
		a, b := term(x), term(y)
		switch op {
		case token.ADD:
			// +0.0 + x = x when x is the conversion of a signed integer (never -0, NaN or inf)
			const fpZero = "((_ to_fp 11 53) #x0000000000000000)"
			const fromInt = "((_ to_fp 11 53) RNE "
			if a == fpZero && strings.HasPrefix(b, fromInt) {
				return y
			}
			if b == fpZero && strings.HasPrefix(a, fromInt) {
				return x
			}
			if b < a { // IEEE addition is commutative: canonical operand order
				a, b = b, a
			}
			return i.ps.name(sym{k, "(fp.add RNE " + a + " " + b + ")"})
		case token.SUB:
			return i.ps.name(sym{k, "(fp.sub RNE " + a + " " + b + ")"})
		case token.MUL:
			if b < a { // IEEE multiplication is commutative: canonical operand order
				a, b = b, a
			}
			return i.ps.name(sym{k, "(fp.mul RNE " + a + " " + b + ")"})
		case token.QUO:
			return i.ps.name(sym{k, "(fp.div RNE " + a + " " + b + ")"})
		case token.LSS:
			return sym{kBool, "(fp.lt " + a + " " + b + ")"}
		case token.LEQ:
			return sym{kBool, "(fp.leq " + a + " " + b + ")"}
		case token.GTR:
			return sym{kBool, "(fp.gt " + a + " " + b + ")"}
		case token.GEQ:
			return sym{kBool, "(fp.geq " + a + " " + b + ")"}
		case token.EQL:
			return sym{kBool, "(fp.eq " + a + " " + b + ")"}
		case token.NEQ:
			return sym{kBool, "(not (fp.eq " + a + " " + b + "))"}
		}
		panic(engineError{"symBinop: float op " + op.String()})
	}
	w := k.width()
	// shifts: y may have a different kind.
	if op == token.SHL || op == token.SHR {
		ky, _ := kindOfValue(y)
		if ky.signed() {
			// negative shift count panics
			neg := sym{kBool, "(bvslt " + term(y) + " " + bvLit(0, ky.width()) + ")"}
			if yc, isC := y.(sym); !isC {
				_ = yc
				if asInt64(y) < 0 {
					panic(targetPanic{rtErr("negative shift amount")})
				}
			} else if i.ps.decide(neg) {
				panic(targetPanic{rtErr("negative shift amount")})
			}
		}
		ty := term(y)
		wy := ky.width()
		var amt string
		switch {
		case wy == w:
			amt = ty
		case wy < w:
			amt = fmt.Sprintf("((_ zero_extend %d) %s)", w-wy, ty)
		default:
			amt = fmt.Sprintf("(ite (bvuge %s %s) %s ((_ extract %d 0) %s))", ty, bvLit(uint64(w), wy), bvLit(uint64(w), w), w-1, ty)
		}
		a := term(x)
		if op == token.SHL {
			return i.ps.name(sym{k, "(bvshl " + a + " " + amt + ")"})
		}
		if k.signed() {
			return i.ps.name(sym{k, "(bvashr " + a + " " + amt + ")"})
		}
		return i.ps.name(sym{k, "(bvlshr " + a + " " + amt + ")"})
	}
	a, b := term(x), term(y)
	bin := func(f string) value { return i.ps.name(sym{k, "(" + f + " " + a + " " + b + ")"}) }
	cmp := func(s, u string) value {
		if a == b {
			return s == "bvsle" || s == "bvsge"
		}
		if k.signed() {
			return sym{kBool, "(" + s + " " + a + " " + b + ")"}
		}
		return sym{kBool, "(" + u + " " + a + " " + b + ")"}
	}
	switch op {
	case token.ADD:
		return bin("bvadd")
	case token.SUB:
		return bin("bvsub")
	case token.MUL:
		return bin("bvmul")
	case token.QUO, token.REM:
		if ys, isS := y.(sym); isS {
			if i.ps.decide(sym{kBool, "(= " + ys.t + " " + bvLit(0, w) + ")"}) {
				panic(targetPanic{rtErr("integer divide by zero")})
			}
		} else if asInt64(y) == 0 {
			panic(targetPanic{rtErr("integer divide by zero")})
		}
		if op == token.QUO {
			if k.signed() {
				return bin("bvsdiv")
			}
			return bin("bvudiv")
		}
		if k.signed() {
			return bin("bvsrem")
		}
		return bin("bvurem")
	case token.AND:
		return bin("bvand")
	case token.OR:
		return bin("bvor")
	case token.XOR:
		return bin("bvxor")
	case token.AND_NOT:
		return i.ps.name(sym{k, "(bvand " + a + " (bvnot " + b + "))"})
	case token.LSS:
		return cmp("bvslt", "bvult")
	case token.LEQ:
		return cmp("bvsle", "bvule")
	case token.GTR:
		return cmp("bvsgt", "bvugt")
	case token.GEQ:
		return cmp("bvsge", "bvuge")
	case token.EQL:
		return scalarEq(x, y)
	case token.NEQ:
		return symNot(scalarEq(x, y))
	}
	panic(engineError{"symBinop: unsupported op " + op.String()})
}

func (i *interpreter) symUnop(op token.Token, x sym) value {
	switch op {
	case token.NOT:
		return symNot(x)
	case token.SUB:
		if x.k == kF64 {
			return sym{x.k, "(fp.neg " + x.t + ")"}
		}
		return i.ps.name(sym{x.k, "(bvneg " + x.t + ")"})
	case token.XOR:
		return i.ps.name(sym{x.k, "(bvnot " + x.t + ")"})
	}
	panic(engineError{"symUnop: unsupported op " + op.String()})
}

// symConv converts a symbolic scalar to basic kind dst.
func (i *interpreter) symConv(dst skind, x sym) value {
	src := x.k
	if src == dst {
		return x
	}
	switch {
	case src.isInt() && dst.isInt():
		ws, wd := src.width(), dst.width()
		switch {
		case ws == wd:
			return sym{dst, x.t}
		case ws > wd:
			return i.ps.name(sym{dst, fmt.Sprintf("((_ extract %d 0) %s)", wd-1, x.t)})
		case src.signed():
			return i.ps.name(sym{dst, fmt.Sprintf("((_ sign_extend %d) %s)", wd-ws, x.t)})
		default:
			return i.ps.name(sym{dst, fmt.Sprintf("((_ zero_extend %d) %s)", wd-ws, x.t)})
		}
	case src.isInt() && dst == kF64:
		if src.signed() {
			return i.ps.name(sym{kF64, "((_ to_fp 11 53) RNE " + x.t + ")"})
		}
		return i.ps.name(sym{kF64, "((_ to_fp_unsigned 11 53) RNE " + x.t + ")"})
	case src == kF64 && dst.isInt():
		// Go: truncation toward zero; out-of-range is implementation-defined.
		if dst.signed() {
			return i.ps.name(sym{dst, fmt.Sprintf("((_ fp.to_sbv %d) RTZ %s)", dst.width(), x.t)})
		}
		return i.ps.name(sym{dst, fmt.Sprintf("((_ fp.to_ubv %d) RTZ %s)", dst.width(), x.t)})
	}
	panic(engineError{fmt.Sprintf("symConv %d -> %d", src, dst)})
}

func rtErr(msg string) value { return rtErrorValue("runtime error: " + msg) }

// rtErrorValue is replaced at interpreter construction to build a
// runtime.Error-like iface; until then a plain string is used.
var rtErrorValue = func(msg string) value { return msg }

// ---------------------------------------------------------------------
// Symbolic strings: concrete length, bytes concrete (uint8) or sym{kU8}.

type symstr struct{ b []value }

// mkStr normalises a byte list to a Go string if fully concrete.
func mkStr(bs []value) value {
	for _, b := range bs {
		if _, ok := b.(uint8); !ok {
			cp := make([]value, len(bs))
			copy(cp, bs)
			return symstr{cp}
		}
	}
	out := make([]byte, len(bs))
	for k, b := range bs {
		out[k] = b.(uint8)
	}
	return string(out)
}

func isStr(v value) bool {
	switch v.(type) {
	case string, symstr:
		return true
	}
	return false
}

// strBytes returns the bytes of a string value (shared for symstr: do not mutate).
func strBytes(v value) []value {
	switch x := v.(type) {
	case string:
		out := make([]value, len(x))
		for k := 0; k < len(x); k++ {
			out[k] = x[k]
		}
		return out
	case symstr:
		return x.b
	}
	panic(engineError{fmt.Sprintf("strBytes: %T", v)})
}

func strLen(v value) int {
	switch x := v.(type) {
	case string:
		return len(x)
	case symstr:
		return len(x.b)
	}
	panic(engineError{fmt.Sprintf("strLen: %T", v)})
}

func strConcat(x, y value) value {
	a, b := strBytes(x), strBytes(y)
	out := make([]value, 0, len(a)+len(b))
	out = append(out, a...)
	out = append(out, b...)
	return mkStr(out)
}

// strEq returns bool or sym for x == y.
func strEq(x, y value) value {
	if strLen(x) != strLen(y) {
		return false
	}
	a, b := strBytes(x), strBytes(y)
	var acc value = true
	for k := range a {
		ca, okA := a[k].(uint8)
		cb, okB := b[k].(uint8)
		if okA && okB {
			if ca != cb {
				return false
			}
			continue
		}
		acc = symAnd(acc, scalarEq(a[k], b[k]))
		if bb, ok := acc.(bool); ok && !bb {
			return false
		}
	}
	return acc
}

// strLess returns bool or sym for x < y (orEq: x <= y), bytewise lexicographic.
func strLess(x, y value, orEq bool) value {
	a, b := strBytes(x), strBytes(y)
	n := len(a)
	if len(b) < n {
		n = len(b)
	}
	var tail value
	if orEq {
		tail = len(a) <= len(b)
	} else {
		tail = len(a) < len(b)
	}
	res := tail
	for k := n - 1; k >= 0; k-- {
		eq := scalarEq(a[k], b[k])
		var lt value
		if ca, ok := a[k].(uint8); ok {
			if cb, ok2 := b[k].(uint8); ok2 {
				lt = ca < cb
			}
		}
		if lt == nil {
			lt = sym{kBool, "(bvult " + term(a[k]) + " " + term(b[k]) + ")"}
		}
		// res = eq ? res : lt
		res = boolIte(eq, res, lt)
	}
	return res
}

func boolIte(c, a, b value) value {
	if cb, ok := c.(bool); ok {
		if cb {
			return a
		}
		return b
	}
	ta, tb := term(a), term(b)
	if ta == tb {
		return a
	}
	return sym{kBool, "(ite " + c.(sym).t + " " + ta + " " + tb + ")"}
}

func (s symstr) String() string {
	var sb strings.Builder
	sb.WriteString("symstr\"")
	for _, b := range s.b {
		if c, ok := b.(uint8); ok {
			if c >= 0x20 && c < 0x7f {
				sb.WriteByte(c)
			} else {
				fmt.Fprintf(&sb, "\\x%02x", c)
			}
		} else {
			sb.WriteString("<" + b.(sym).t + ">")
		}
	}
	sb.WriteString("\"")
	return sb.String()
}

// containsSym reports whether v (a scalar/struct/array/iface/string) has symbolic parts.
func containsSym(v value) bool {
	switch x := v.(type) {
	case sym, symstr:
		return true
	case structure:
		for _, f := range x {
			if containsSym(f) {
				return true
			}
		}
	case array:
		for _, f := range x {
			if containsSym(f) {
				return true
			}
		}
	case iface:
		return containsSym(x.v)
	}
	return false
}

// symEq returns bool or sym{kBool}: Go's == on comparable values of type t
// (t may be nil: then structure fields are all compared).
func symEq(t types.Type, x, y value) value {
	switch x := x.(type) {
	case sym:
		return scalarEq(x, y)
	case string, symstr:
		return strEq(x, y)
	case structure:
		ys := y.(structure)
		var st *types.Struct
		if t != nil {
			st, _ = t.Underlying().(*types.Struct)
		}
		var acc value = true
		for k := range x {
			var ft types.Type
			if st != nil {
				f := st.Field(k)
				if f.Name() == "_" {
					continue
				}
				ft = f.Type()
			}
			acc = symAnd(acc, symEq(ft, x[k], ys[k]))
			if b, ok := acc.(bool); ok && !b {
				return false
			}
		}
		return acc
	case array:
		ys := y.(array)
		var et types.Type
		if t != nil {
			if at, ok := t.Underlying().(*types.Array); ok {
				et = at.Elem()
			}
		}
		var acc value = true
		for k := range x {
			acc = symAnd(acc, symEq(et, x[k], ys[k]))
			if b, ok := acc.(bool); ok && !b {
				return false
			}
		}
		return acc
	case iface:
		yi := y.(iface)
		if x.t == nil || yi.t == nil {
			return x.t == nil && yi.t == nil
		}
		if !types.Identical(x.t, yi.t) {
			return false
		}
		if !types.Comparable(x.t) {
			panic(targetPanic{rtErr("comparing uncomparable type " + x.t.String())})
		}
		return symEq(x.t, x.v, yi.v)
	}
	if isSym(y) {
		return scalarEq(x, y)
	}
	if _, ok := y.(symstr); ok {
		return strEq(x, y)
	}
	return equalsConcrete(t, x, y)
}
