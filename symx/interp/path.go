package interp

// Per-path state: solver session, decision trace, nondet inputs, obligations.

import (
	"sort"
	"bufio"
	"fmt"
	"io"
	"os/exec"
	"strconv"
	"strings"
	"time"
)

// ---- solver ----

type Solver struct {
	cmd        *exec.Cmd
	in         *bufio.Writer
	out        *bufio.Reader
	Queries    int
	Time       time.Duration
	MaxQuery   time.Duration
	Unknowns   int
	TimeoutMs  int
	Transcript io.Writer // optional: every line sent

	// Fallback portfolio. Everything a path sends sits inside one top-level
	// (push)...(pop), so the lines since that (push) reconstruct the solver
	// state exactly. When the primary solver answers unknown, the same lines are
	// replayed into a fresh process of each fallback binary (longer time limit);
	// the first definite answer is used. If it is sat, that process stays alive
	// as alt to serve the following get-value, and is dropped at the next command.
	Bin       string
	log       []string
	marks     []int
	depth     int
	alt       *Solver
	Fallbacks int // unknowns resolved by a fallback solver
	Killed    int // solver processes killed for ignoring their time limit
	noFallback bool
}

// fallbackBins lists the solvers tried, in order, after bin said unknown.
func fallbackBins(bin string) []string {
	switch {
	case strings.Contains(bin, "cvc5"):
		return []string{"z3-new", "z3"}
	case strings.Contains(bin, "z3-new"):
		return []string{"z3", "cvc5"}
	}
	return []string{"z3-new", "cvc5"}
}

func NewSolver(bin string, timeoutMs int) (*Solver, error) {
	args := []string{"-in"}
	if timeoutMs > 0 {
		args = append(args, fmt.Sprintf("-t:%d", timeoutMs))
	}
	if strings.Contains(bin, "cvc5") {
		args = []string{"--incremental", "--produce-models", "--lang=smt2", "-q"}
		if timeoutMs > 0 {
			args = append(args, fmt.Sprintf("--tlimit-per=%d", timeoutMs))
		}
	}
	c := exec.Command(bin, args...)
	in, err := c.StdinPipe()
	if err != nil {
		return nil, err
	}
	out, err := c.StdoutPipe()
	if err != nil {
		return nil, err
	}
	if err := c.Start(); err != nil {
		return nil, err
	}
	sv := &Solver{cmd: c, in: bufio.NewWriterSize(in, 1<<16), out: bufio.NewReaderSize(out, 1<<16), TimeoutMs: timeoutMs, Bin: bin}
	if strings.Contains(bin, "cvc5") {
		sv.send("(set-logic ALL)")
	}
	return sv, nil
}

func (s *Solver) Close() {
	s.dropAlt()
	s.send("(exit)")
	s.in.Flush()
	s.cmd.Process.Kill()
	s.cmd.Wait()
}

func (s *Solver) dropAlt() {
	if s.alt != nil {
		a := s.alt
		s.alt = nil
		a.Close()
	}
}

func (s *Solver) send(l string) {
	if s.Transcript != nil {
		io.WriteString(s.Transcript, l+"\n")
	}
	if !s.noFallback {
		if !strings.HasPrefix(l, "(get-value") {
			s.dropAlt()
		}
		switch {
		case l == "(push)":
			if s.depth == 0 {
				s.log = s.log[:0]
				s.marks = s.marks[:0]
			} else {
				s.marks = append(s.marks, len(s.log))
				s.log = append(s.log, l)
			}
			s.depth++
		case l == "(pop)":
			s.depth--
			if n := len(s.marks); n > 0 {
				// drop the popped scope: the log stays the net state
				s.log = s.log[:s.marks[n-1]]
				s.marks = s.marks[:n-1]
			} else {
				s.log = s.log[:0]
			}
		case l == "(check-sat)" || strings.HasPrefix(l, "(get-value") || l == "(exit)":
		default:
			s.log = append(s.log, l)
		}
	}
	s.in.WriteString(l)
	s.in.WriteByte('\n')
}

// check returns "sat", "unsat" or "unknown"; any other reply is an engine error.
func (s *Solver) check() string {
	s.Queries++
	s.send("(check-sat)")
	s.in.Flush()
	t0 := time.Now()
	l, err := s.readAnswer()
	d := time.Since(t0)
	s.Time += d
	if d > s.MaxQuery {
		s.MaxQuery = d
	}
	l = strings.TrimSpace(l)
	if err != nil {
		panic(engineError{"solver died: " + err.Error() + " " + l})
	}
	switch l {
	case "sat", "unsat":
		return l
	case "unknown", "timeout":
		if r := s.tryFallbacks(); r != "" {
			s.Fallbacks++
			return r
		}
		s.Unknowns++
		return "unknown"
	}
	panic(engineError{"solver said: " + l})
}

// readAnswer reads the reply to a check-sat. A solver that does not honour its own time
// limit (observed: a z3 process silent for an hour) is killed after twice the limit plus a
// grace period and replaced by a fresh process holding the same assertions; the query then
// counts as unknown (and goes to the fallback solvers).
func (s *Solver) readAnswer() (string, error) {
	if s.TimeoutMs <= 0 {
		return s.out.ReadString('\n')
	}
	type res struct {
		l   string
		err error
	}
	ch := make(chan res, 1)
	out := s.out
	go func() {
		l, err := out.ReadString('\n')
		ch <- res{l, err}
	}()
	hard := 2*time.Duration(s.TimeoutMs)*time.Millisecond + 15*time.Second
	select {
	case r := <-ch:
		return r.l, r.err
	case <-time.After(hard):
	}
	s.cmd.Process.Kill()
	<-ch
	s.cmd.Wait()
	s.Killed++
	n, err := NewSolver(s.Bin, s.TimeoutMs)
	if err != nil {
		return "", err
	}
	s.cmd, s.in, s.out = n.cmd, n.in, n.out
	if s.depth > 0 {
		s.in.WriteString("(push)\n")
		for _, l := range s.log {
			s.in.WriteString(l)
			s.in.WriteByte('\n')
		}
	}
	return "unknown", nil
}

// tryFallbacks replays the current path's solver state into fresh processes of the
// other solvers; returns "sat", "unsat" or "" (all unknown / unavailable).
func (s *Solver) tryFallbacks() (res string) {
	if s.noFallback || s.depth == 0 {
		return ""
	}
	for _, bin := range fallbackBins(s.Bin) {
		r := func() (r string) {
			defer func() {
				if recover() != nil {
					r = ""
				}
			}()
			tm := s.TimeoutMs * 2
			a, err := NewSolver(bin, tm)
			if err != nil {
				return ""
			}
			a.noFallback = true
			for _, l := range s.log {
				a.send(l)
			}
			t0 := time.Now()
			r = a.check()
			s.Time += time.Since(t0)
			s.Queries++
			if r == "sat" {
				s.alt = a
			} else {
				a.Close()
			}
			if r == "unknown" {
				r = ""
			}
			return r
		}()
		if r != "" {
			return r
		}
	}
	return ""
}

// getValues returns the values of the named constants as raw SMT text.
func (s *Solver) getValues(names []string) map[string]string {
	res := map[string]string{}
	if len(names) == 0 {
		return res
	}
	if s.alt != nil {
		// the last sat answer came from a fallback process: its model is the witness
		return s.alt.getValues(names)
	}
	s.send("(get-value (" + strings.Join(names, " ") + "))")
	s.in.Flush()
	var sb strings.Builder
	depth := 0
	started := false
	for {
		l, err := s.out.ReadString('\n')
		if err != nil {
			panic(engineError{"solver died in get-value"})
		}
		sb.WriteString(l)
		depth += strings.Count(l, "(") - strings.Count(l, ")")
		if strings.Contains(l, "(") {
			started = true
		}
		if started && depth <= 0 {
			break
		}
	}
	txt := sb.String()
	if strings.Contains(txt, "(error") {
		panic(engineError{"solver get-value: " + txt})
	}
	// parse ((name val) (name val) ...)
	toks := sexpTokens(txt)
	// toks: ( ( name val... ) ( name val...) )
	pos := 1
	for pos < len(toks)-1 {
		if toks[pos] != "(" {
			break
		}
		name := toks[pos+1]
		// value: either atom or parenthesised expr
		j := pos + 2
		var val string
		if toks[j] == "(" {
			d := 0
			var parts []string
			for {
				if toks[j] == "(" {
					d++
				} else if toks[j] == ")" {
					d--
				}
				parts = append(parts, toks[j])
				j++
				if d == 0 {
					break
				}
			}
			val = strings.Join(parts, " ")
		} else {
			val = toks[j]
			j++
		}
		res[name] = val
		pos = j + 1 // skip ")"
	}
	return res
}

func sexpTokens(s string) []string {
	var toks []string
	cur := strings.Builder{}
	flush := func() {
		if cur.Len() > 0 {
			toks = append(toks, cur.String())
			cur.Reset()
		}
	}
	for _, r := range s {
		switch r {
		case '(', ')':
			flush()
			toks = append(toks, string(r))
		case ' ', '\n', '\t', '\r':
			flush()
		default:
			cur.WriteRune(r)
		}
	}
	flush()
	return toks
}

// parseBV parses "#x..." / "#b..." into a uint64.
func parseBV(v string) (uint64, bool) {
	if strings.HasPrefix(v, "#x") {
		u, err := strconv.ParseUint(v[2:], 16, 64)
		return u, err == nil
	}
	if strings.HasPrefix(v, "#b") {
		u, err := strconv.ParseUint(v[2:], 2, 64)
		return u, err == nil
	}
	return 0, false
}

// ---- control-flow panics of the engine (never seen by the target) ----

type pathAbort struct{}                 // vxAssume(false)
type unsupportedAbort struct{ what string } // path needs something the engine cannot model
type budgetAbort struct{ what string }      // step/decision budget: unwinding failure
type violationAbort struct{}            // assertion failed; path ends

func isControlPanic(p any) bool {
	switch p.(type) {
	case pathAbort, unsupportedAbort, budgetAbort, violationAbort, engineError:
		return true
	}
	return false
}

// ---- nondet inputs ----

type Nondet struct {
	Name string
	Kind skind
	Term string // solver constant (bits constant for floats)
}

// Violation is an assertion failure (or unexpected panic) with a witness.
type Violation struct {
	Label  string
	Tag    string
	Kind   string            // "assert", "panic", "concrete-assert"
	Detail string            // panic text
	Inputs map[string]string // nondet name -> value ("123", "true", "0x1p3" ...)
	Choices []int            // decision trace (for symx-level re-run)
	ChoiceVals map[string]int // vxChoose values on the path
	Inconclusive bool        // solver said unknown
}

type PathState struct {
	S      *Solver
	Prefix []int32
	Trace  []int32
	Alts   [][]int32

	declared map[string]bool
	Nondets  []Nondet
	decided  map[string]bool
	defSeq   int
	hseq     int
	hcalls   []hcall

	Asserts     int // assertion obligations asked
	Discharged  int // answered unsat / concretely true
	Reached     map[string]int
	Tags        []string
	Viol        []Violation
	Inconcl     int
	Decisions   int
	MaxDecisions int
	ExpectPanic bool
	Observes    []string
	Params      map[string]int
	MapOrder    int
	Twin        bool
	pcUnknown   bool
	Choices     []string
	ChoiceVals  map[string]int
	Fixed       map[string]string
	FixedChoices map[string]int

	floatOf map[string]string // bits constant -> float term it encodes
	consts  []Nondet          // every declared constant (inputs and internal)
	defs    map[string]string // define-fun bodies
	M       map[string]ev     // a model of the path condition (when mValid)
	mValid  bool
	NoModel bool // disable model-guided decisions (debug / cross-check)
	EvalHits, EvalMiss int
}

func newPathState(s *Solver, prefix []int32, params map[string]int) *PathState {
	return &PathState{S: s, Prefix: prefix, declared: map[string]bool{}, decided: map[string]bool{},
		Reached: map[string]int{}, Params: params, MaxDecisions: 20000, ChoiceVals: map[string]int{}, defs: map[string]string{}, M: map[string]ev{}, floatOf: map[string]string{}}
}

// name introduces a definition for long terms so that term text stays small.
func (ps *PathState) name(v sym) value {
	if len(v.t) < 160 {
		return v
	}
	ps.defSeq++
	n := fmt.Sprintf("d!%d", ps.defSeq)
	ps.S.send("(define-fun " + n + " () " + v.k.sort() + " " + v.t + ")")
	ps.defs[n] = v.t
	return sym{v.k, n}
}

func (ps *PathState) declare(name string, k skind) value {
	if fv, ok := ps.Fixed[name]; ok {
		return parseFixed(k, fv)
	}
	if ps.Fixed != nil {
		return concreteOf(k, 0)
	}
	if !ps.declared[name] {
		ps.declared[name] = true
		if k == kF64 {
			ps.S.send("(declare-const " + name + " (_ BitVec 64))")
		} else {
			ps.S.send("(declare-const " + name + " " + k.sort() + ")")
		}
		ps.Nondets = append(ps.Nondets, Nondet{name, k, name})
		ps.consts = append(ps.consts, Nondet{name, k, name})
		ps.M[name] = zeroEv(k) // unconstrained so far: any value extends the model
	}
	if k == kF64 {
		return sym{k, "((_ to_fp 11 53) " + name + ")"}
	}
	return sym{k, name}
}

// fresh declares an internal (non-input) constant.
func (ps *PathState) fresh(prefix string, k skind) sym {
	ps.hseq++
	n := fmt.Sprintf("%s!%d", prefix, ps.hseq)
	ps.S.send("(declare-const " + n + " " + k.sort() + ")")
	ps.consts = append(ps.consts, Nondet{n, k, n})
	ps.M[n] = zeroEv(k)
	return sym{k, n}
}

// assertTerm adds a side constraint (stub contract) to the path condition.
func (ps *PathState) assertTerm(t string) {
	ps.S.send("(assert " + t + ")")
	if ps.mValid {
		if v, err := ps.evalBool(t); err != nil || !v {
			ps.mValid = false
		}
	}
}

func zeroEv(k skind) ev {
	switch k {
	case kBool:
		return ev{evBool, 0, 0}
	case kF64:
		return ev{evBV, 0, 64} // float inputs are declared as their IEEE bits
	}
	return ev{evBV, 0, k.width()}
}

func (ps *PathState) evalBool(t string) (bool, error) {
	e := &evaluator{model: ps.M, defs: ps.defs, memo: map[string]ev{}}
	v, err := e.evalTerm(t)
	if err != nil {
		return false, err
	}
	if v.k != evBool {
		return false, fmt.Errorf("not a bool: %s", t)
	}
	return v.u != 0, nil
}

// refreshModel asks the solver for a model of the current path condition.
func (ps *PathState) refreshModel() bool {
	r := ps.S.check()
	if r != "sat" {
		if r == "unknown" {
			ps.Inconcl++
			ps.pcUnknown = true
		}
		ps.mValid = false
		return false
	}
	ps.readModel()
	return true
}

// readModel loads the solver's current model (call right after a sat answer).
func (ps *PathState) readModel() {
	names := make([]string, len(ps.consts))
	for k, n := range ps.consts {
		names[k] = n.Term
	}
	raw := ps.S.getValues(names)
	m := make(map[string]ev, len(names))
	for _, n := range ps.consts {
		v := raw[n.Term]
		if n.Kind == kBool {
			m[n.Term] = ev{evBool, b2u(v == "true"), 0}
			continue
		}
		u, ok := parseBV(v)
		if !ok {
			panic(engineError{"model value for " + n.Name + ": " + v})
		}
		w := n.Kind.width()
		m[n.Term] = ev{evBV, u, w}
	}
	ps.M = m
	ps.mValid = true
}

// modelInputs formats the nondet inputs of the current model M.
func (ps *PathState) modelInputs() map[string]string {
	out := map[string]string{}
	for _, n := range ps.Nondets {
		v := ps.M[n.Term]
		switch {
		case n.Kind == kBool:
			if v.u != 0 {
				out[n.Name] = "true"
			} else {
				out[n.Name] = "false"
			}
		case n.Kind == kF64:
			out[n.Name] = fmt.Sprintf("f:%016x", v.u)
		case n.Kind.signed():
			out[n.Name] = strconv.FormatInt(sext(v.u, n.Kind.width()), 10)
		default:
			out[n.Name] = strconv.FormatUint(v.u, 10)
		}
	}
	return out
}

func (ps *PathState) record(d int32) {
	ps.Trace = append(ps.Trace, d)
	ps.Decisions++
	if ps.Decisions > ps.MaxDecisions {
		panic(budgetAbort{"decision budget"})
	}
}

// decide resolves a symbolic condition on this path (forking if both sides are feasible).
func (ps *PathState) decide(c sym) bool {
	if c.k != kBool {
		panic(engineError{"decide on non-bool"})
	}
	if v, ok := ps.decided[c.t]; ok {
		return v
	}
	neg := symNot(c).(sym)
	if v, ok := ps.decided[neg.t]; ok {
		return !v
	}
	k := len(ps.Trace)
	if k < len(ps.Prefix) {
		d := ps.Prefix[k]
		ps.record(d)
		switch d {
		case 2, 3: // implied by the path condition when first explored
			ps.decided[c.t] = d == 3
			return d == 3
		case 4, 5: // side whose feasibility the solver could not decide
			ps.pcUnknown = true
			ps.take(c, d == 5)
			ps.mValid = false
			return d == 5
		}
		ps.take(c, d == 1)
		ps.mValid = false
		return d == 1
	}
	// new decision
	if !ps.NoModel {
		if !ps.mValid {
			ps.refreshModel()
		}
		if ps.mValid {
			if v, err := ps.evalBool(c.t); err == nil {
				ps.EvalHits++
				// the witness M takes side v; only the other side needs a query
				other := neg.t
				if !v {
					other = c.t
				}
				ps.S.send("(push)")
				ps.S.send("(assert " + other + ")")
				r := ps.S.check()
				var otherModel bool
				if r == "sat" {
					otherModel = true
				}
				_ = otherModel
				ps.S.send("(pop)")
				if r == "unsat" {
					ps.decided[c.t] = v
					if v {
						ps.record(3)
					} else {
						ps.record(2)
					}
					return v
				}
				var me, alt int32 = 1, 0
				if !v {
					me, alt = 0, 1
				}
				if r == "unknown" {
					ps.Inconcl++
					alt += 4
				}
				ps.Alts = append(ps.Alts, append(append([]int32{}, ps.Trace...), alt))
				ps.record(me)
				ps.take(c, v)
				return v
			}
			ps.EvalMiss++
		}
	}
	ps.S.send("(push)")
	ps.S.send("(assert " + c.t + ")")
	rt := ps.S.check()
	ps.S.send("(pop)")
	if rt == "unsat" {
		// PC is satisfiable by invariant, so the negation holds: no branching.
		ps.decided[c.t] = false
		ps.record(2)
		return false
	}
	ps.S.send("(push)")
	ps.S.send("(assert " + neg.t + ")")
	rf := ps.S.check()
	ps.S.send("(pop)")
	if rf == "unsat" {
		ps.decided[c.t] = true
		ps.record(3)
		if rt == "unknown" {
			ps.Inconcl++
		}
		return true
	}
	if rt == "unknown" || rf == "unknown" {
		ps.Inconcl++
		ps.pcUnknown = true
	}
	// both (possibly) feasible: fork
	var altv int32
	if rf == "unknown" {
		altv = 4
	}
	alt := append(append([]int32{}, ps.Trace...), altv)
	ps.Alts = append(ps.Alts, alt)
	ps.record(1)
	ps.take(c, true)
	ps.mValid = false
	return true
}

func (ps *PathState) take(c sym, d bool) {
	ps.decided[c.t] = d
	if d {
		ps.S.send("(assert " + c.t + ")")
	} else {
		ps.S.send("(assert " + symNot(c).(sym).t + ")")
	}
}

// choose picks one of n alternatives (concrete case split, no solver).
func (ps *PathState) choose(n int) int {
	if n <= 1 {
		return 0
	}
	k := len(ps.Trace)
	if k < len(ps.Prefix) {
		d := ps.Prefix[k]
		ps.record(d)
		return int(d)
	}
	for a := n - 1; a >= 1; a-- {
		alt := append(append([]int32{}, ps.Trace...), int32(a))
		ps.Alts = append(ps.Alts, alt)
	}
	ps.record(0)
	return 0
}

// decideBool accepts bool or sym.
func (ps *PathState) decideV(c value) bool {
	switch x := c.(type) {
	case bool:
		return x
	case sym:
		return ps.decide(x)
	}
	panic(engineError{fmt.Sprintf("decideV %T", c)})
}

// model returns nondet values under the current solver state; call after a sat check.
func (ps *PathState) model() map[string]string {
	names := make([]string, len(ps.Nondets))
	for k, n := range ps.Nondets {
		names[k] = n.Term
	}
	raw := ps.S.getValues(names)
	out := map[string]string{}
	for _, n := range ps.Nondets {
		v := raw[n.Term]
		switch {
		case n.Kind == kBool:
			out[n.Name] = v
		default:
			u, ok := parseBV(v)
			if !ok {
				panic(engineError{"model value for " + n.Name + ": " + v})
			}
			switch {
			case n.Kind == kF64:
				out[n.Name] = fmt.Sprintf("f:%016x", u)
			case n.Kind.signed():
				w := n.Kind.width()
				s := int64(u<<(64-uint(w))) >> (64 - uint(w))
				out[n.Name] = strconv.FormatInt(s, 10)
			default:
				out[n.Name] = strconv.FormatUint(u, 10)
			}
		}
	}
	return out
}

// assert checks an obligation.
func (ps *PathState) assert(c value, label string) {
	ps.Asserts++
	if ps.Twin {
		c = false
	}
	tag := ps.tagString()
	switch x := c.(type) {
	case bool:
		if x {
			ps.Discharged++
			return
		}
		v := Violation{Label: label, Tag: tag, Kind: "concrete-assert", Choices: append([]int(nil), toInts(ps.Trace)...)}
		if ps.mValid && !ps.NoModel {
			v.Inputs = ps.modelInputs()
			ps.Viol = append(ps.Viol, v)
			panic(violationAbort{})
		}
		r := ps.S.check()
		if r == "sat" {
			v.Inputs = ps.model()
		} else if r == "unknown" {
			v.Inconclusive = true
		} else {
			// PC unsat: only possible after an unknown decision
			if !ps.pcUnknown {
				panic(engineError{"path condition unsatisfiable at failing concrete assertion " + label})
			}
			ps.Discharged++
			panic(pathAbort{})
		}
		ps.Viol = append(ps.Viol, v)
		panic(violationAbort{})
	case sym:
		if dv, ok := ps.decided[x.t]; ok && dv {
			ps.Discharged++
			return
		}
		if !ps.NoModel {
			if !ps.mValid {
				ps.refreshModel()
			}
			if ps.mValid {
				if cv, err := ps.evalBool(x.t); err == nil && !cv {
					v := Violation{Label: label, Tag: tag, Kind: "assert", Choices: append([]int(nil), toInts(ps.Trace)...), Inputs: ps.modelInputs()}
					ps.Viol = append(ps.Viol, v)
					panic(violationAbort{})
				}
			}
		}
		ps.S.send("(push)")
		ps.S.send("(assert " + symNot(x).(sym).t + ")")
		r := ps.S.check()
		if r == "unsat" {
			ps.S.send("(pop)")
			ps.Discharged++
			ps.decided[x.t] = true
			ps.S.send("(assert " + x.t + ")")
			return
		}
		v := Violation{Label: label, Tag: tag, Kind: "assert", Choices: append([]int(nil), toInts(ps.Trace)...)}
		if r == "sat" {
			v.Inputs = ps.model()
		} else {
			v.Inconclusive = true
			ps.Inconcl++
		}
		ps.S.send("(pop)")
		ps.Viol = append(ps.Viol, v)
		panic(violationAbort{})
	default:
		panic(engineError{fmt.Sprintf("assert on %T", c)})
	}
}

func toInts(t []int32) []int {
	out := make([]int, len(t))
	for k, v := range t {
		out[k] = int(v)
	}
	return out
}

// ---- H-fnv stub: injective uninterpreted hash over byte sequences ----

type hcall struct {
	bytes []value
	h     value // uint64 (concrete input) or sym
}

// hashStub returns a 64-bit hash for a byte sequence: the real FNV value for concrete input,
// otherwise a fresh constant constrained to be a function of the bytes and injective w.r.t.
// every other call on this path, concrete ones included (assumption H-fnv).
func (ps *PathState) hashStub(bs []value, concrete func([]byte) uint64) value {
	allC := true
	for _, b := range bs {
		if _, ok := b.(uint8); !ok {
			allC = false
			break
		}
	}
	key := func(b []value) string {
		var sb strings.Builder
		for _, x := range b {
			sb.WriteString(term(x))
			sb.WriteByte(' ')
		}
		return sb.String()
	}
	kk := key(bs)
	for _, c := range ps.hcalls {
		if len(c.bytes) == len(bs) && key(c.bytes) == kk {
			return c.h
		}
	}
	var h value
	if allC {
		raw := make([]byte, len(bs))
		for k, b := range bs {
			raw[k] = b.(uint8)
		}
		h = concrete(raw)
	} else {
		h = ps.fresh("h", kU64)
	}
	ht := term(h)
	for _, c := range ps.hcalls {
		_, cConcrete := c.h.(uint64)
		if allC && cConcrete {
			continue // two concrete calls: real values, nothing to assume
		}
		ct := term(c.h)
		if len(c.bytes) != len(bs) {
			ps.assertTerm("(not (= " + ht + " " + ct + "))")
			continue
		}
		eq := symEqBytes(bs, c.bytes)
		switch e := eq.(type) {
		case bool:
			if e {
				ps.assertTerm("(= " + ht + " " + ct + ")")
			} else {
				ps.assertTerm("(not (= " + ht + " " + ct + "))")
			}
		case sym:
			ps.assertTerm("(= (= " + ht + " " + ct + ") " + e.t + ")")
		}
	}
	cp := make([]value, len(bs))
	copy(cp, bs)
	ps.hcalls = append(ps.hcalls, hcall{cp, h})
	return h
}

func symEqBytes(a, b []value) value {
	var acc value = true
	for k := range a {
		acc = symAnd(acc, scalarEq(a[k], b[k]))
		if bb, ok := acc.(bool); ok && !bb {
			return false
		}
	}
	return acc
}

// parseFixed parses a model/replay value string ("-5", "true", "f:<hex bits>") into a concrete Go value.
func parseFixed(k skind, v string) value {
	switch {
	case k == kBool:
		return v == "true"
	case k == kF64:
		u, _ := strconv.ParseUint(strings.TrimPrefix(v, "f:"), 16, 64)
		return concreteOf(k, u)
	case k.signed():
		n, _ := strconv.ParseInt(v, 10, 64)
		return concreteOf(k, uint64(n))
	default:
		u, _ := strconv.ParseUint(v, 10, 64)
		return concreteOf(k, u)
	}
}

func (ps *PathState) tagString() string {
	t := append([]string(nil), ps.Tags...)
	sort.Strings(t)
	return strings.Join(t, ",")
}
