package interp

// Harness API (vx* functions declared in the harness packages) and run-time
// services of the engine exposed to harnesses.

import (
	"fmt"
)

var symExternals = map[string]externalFn{}

func strArg(v value) string {
	s, ok := v.(string)
	if !ok {
		panic(engineError{"harness API needs a concrete string argument"})
	}
	return s
}

func init() {
	reg := func(name string, f externalFn) { symExternals[name] = f }
	scalar := func(k skind) externalFn {
		return func(fr *frame, a []value) value {
			return fr.i.ps.declare(strArg(a[0]), k)
		}
	}
	reg("vxInt64", scalar(kI64))
	reg("vxInt", scalar(kInt))
	reg("vxInt32", scalar(kI32))
	reg("vxUint64", scalar(kU64))
	reg("vxByte", scalar(kU8))
	reg("vxBool", scalar(kBool))
	reg("vxFloat64", scalar(kF64))
	reg("vxBytes", func(fr *frame, a []value) value {
		n := int(asInt64(a[1]))
		out := make([]value, n)
		for k := 0; k < n; k++ {
			out[k] = fr.i.ps.declare(fmt.Sprintf("%s_%d", strArg(a[0]), k), kU8)
		}
		return out
	})
	reg("vxString", func(fr *frame, a []value) value {
		n := int(asInt64(a[1]))
		out := make([]value, n)
		for k := 0; k < n; k++ {
			out[k] = fr.i.ps.declare(fmt.Sprintf("%s_%d", strArg(a[0]), k), kU8)
		}
		return mkStr(out)
	})
	reg("vxChoose", func(fr *frame, a []value) value {
		n := int(asInt64(a[1]))
		if prev, ok := fr.i.ps.ChoiceVals[strArg(a[0])]; ok {
			return prev // same name, same value (like the scalar nondets)
		}
		if fc, ok := fr.i.ps.FixedChoices[strArg(a[0])]; ok {
			fr.i.ps.ChoiceVals[strArg(a[0])] = fc
			return fc
		}
		if fr.i.ps.Fixed != nil {
			fr.i.ps.ChoiceVals[strArg(a[0])] = 0 // concrete run: unpinned choices default to 0, as in the native API
			return 0
		}
		c := fr.i.ps.choose(n)
		fr.i.ps.Choices = append(fr.i.ps.Choices, fmt.Sprintf("%s=%d", strArg(a[0]), c))
		fr.i.ps.ChoiceVals[strArg(a[0])] = c
		return c
	})
	reg("vxParam", func(fr *frame, a []value) value {
		v, ok := fr.i.ps.Params[strArg(a[0])]
		if !ok {
			return int(asInt64(a[1]))
		}
		return v
	})
	reg("vxAssume", func(fr *frame, a []value) value {
		if !fr.i.ps.decideV(a[0]) {
			panic(pathAbort{})
		}
		return nil
	})
	reg("vxAssert", func(fr *frame, a []value) value {
		fr.i.ps.assert(a[0], strArg(a[1]))
		return nil
	})
	reg("vxTag", func(fr *frame, a []value) value {
		t := strArg(a[0])
		for _, x := range fr.i.ps.Tags {
			if x == t {
				return nil
			}
		}
		fr.i.ps.Tags = append(fr.i.ps.Tags, t)
		return nil
	})
	reg("vxUntag", func(fr *frame, a []value) value {
		t := strArg(a[0])
		out := fr.i.ps.Tags[:0]
		for _, x := range fr.i.ps.Tags {
			if x != t {
				out = append(out, x)
			}
		}
		fr.i.ps.Tags = out
		return nil
	})
	reg("vxReach", func(fr *frame, a []value) value {
		fr.i.ps.Reached[strArg(a[0])]++
		return nil
	})
	reg("vxExpectPanic", func(fr *frame, a []value) value {
		fr.i.ps.ExpectPanic = a[0].(bool)
		return nil
	})
	reg("vxMapOrder", func(fr *frame, a []value) value {
		fr.i.ps.MapOrder = int(asInt64(a[0]))
		return nil
	})
	reg("vxSymbolic", func(fr *frame, a []value) value { return true })
	// vxConcretize(x int64) int64: case-split a symbolic value to a model value and pin it.
	reg("vxIsConcrete", func(fr *frame, a []value) value {
		if ifc, ok := a[0].(iface); ok {
			return !containsSym(ifc.v)
		}
		return !containsSym(a[0])
	})
	reg("vxObserve", func(fr *frame, a []value) value {
		v := a[1]
		if ifc, ok := v.(iface); ok {
			v = ifc.v
		}
		var txt string
		switch x := v.(type) {
		case string:
			txt = x
		case bool, int, int8, int16, int32, int64, uint, uint8, uint16, uint32, uint64, float64:
			txt = fmt.Sprint(x)
		default:
			txt = toString(v)
		}
		fr.i.ps.Observes = append(fr.i.ps.Observes, strArg(a[0])+"="+txt)
		return nil
	})
	// shared-state monitor (C18, second clause)
	reg("vxSharedWatch", func(fr *frame, a []value) value {
		fr.i.sharedWatch()
		return nil
	})
	reg("vxSharedWrites", func(fr *frame, a []value) value {
		if fr.i.sharedMon == nil {
			return 0
		}
		for _, v := range fr.i.sharedMon.writes {
			fr.i.ps.Observes = append(fr.i.ps.Observes, "shared-state: "+v)
		}
		return len(fr.i.sharedMon.writes)
	})
	// lock monitor (C18)
	reg("vxLockWatch", func(fr *frame, a []value) value {
		fr.i.lockWatch(a[0], a[1])
		return nil
	})
	reg("vxLockViolations", func(fr *frame, a []value) value {
		if fr.i.lockMon == nil {
			return 0
		}
		for _, v := range fr.i.lockMon.violations {
			fr.i.ps.Observes = append(fr.i.ps.Observes, "lock-discipline: "+v)
		}
		return len(fr.i.lockMon.violations)
	})
}
