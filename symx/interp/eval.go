package interp

// Concrete evaluation of SMT-LIB terms (the fragment symx emits) under a
// model. Used to pick the branch that the current witness takes, so that only
// the other side needs a solver query.

import (
	"fmt"
	"math"
	"strconv"
	"strings"
)

type evKind uint8

const (
	evBool evKind = iota
	evBV
	evFP
	evRM // rounding mode token
)

type ev struct {
	k evKind
	u uint64 // bits (bv, bool as 0/1, fp as IEEE bits)
	w int    // bv width
}

type evalError struct{ msg string }

func evErr(format string, a ...any) { panic(evalError{fmt.Sprintf(format, a...)}) }

type evaluator struct {
	model map[string]ev     // constants
	defs  map[string]string // define-fun bodies
	memo  map[string]ev
}

func mask(w int) uint64 {
	if w >= 64 {
		return ^uint64(0)
	}
	return (uint64(1) << uint(w)) - 1
}

func sext(u uint64, w int) int64 {
	if w >= 64 {
		return int64(u)
	}
	sh := uint(64 - w)
	return int64(u<<sh) >> sh
}

// evalTerm evaluates term text t.
func (e *evaluator) evalTerm(t string) (res ev, err error) {
	defer func() {
		if r := recover(); r != nil {
			if ee, ok := r.(evalError); ok {
				err = fmt.Errorf("%s", ee.msg)
				return
			}
			panic(r)
		}
	}()
	p := &evParser{s: t, e: e}
	res = p.expr()
	return
}

type evParser struct {
	s   string
	pos int
	e   *evaluator
}

func (p *evParser) skip() {
	for p.pos < len(p.s) && (p.s[p.pos] == ' ' || p.s[p.pos] == '\n') {
		p.pos++
	}
}

func (p *evParser) atom() string {
	p.skip()
	st := p.pos
	for p.pos < len(p.s) && p.s[p.pos] != ' ' && p.s[p.pos] != ')' && p.s[p.pos] != '(' && p.s[p.pos] != '\n' {
		p.pos++
	}
	return p.s[st:p.pos]
}

func (p *evParser) expect(c byte) {
	p.skip()
	if p.pos >= len(p.s) || p.s[p.pos] != c {
		evErr("parse: expected %q at %d in %q", c, p.pos, p.s)
	}
	p.pos++
}

func (p *evParser) peek() byte {
	p.skip()
	if p.pos >= len(p.s) {
		return 0
	}
	return p.s[p.pos]
}

func (p *evParser) args() []ev {
	var out []ev
	for p.peek() != ')' {
		out = append(out, p.expr())
	}
	p.expect(')')
	return out
}

func (p *evParser) expr() ev {
	if p.peek() != '(' {
		a := p.atom()
		return p.e.atomValue(a)
	}
	p.expect('(')
	// operator: atom or indexed identifier (_ name n...) or ((_ ...) args)
	var op string
	var idx []int
	if p.peek() == '(' {
		p.expect('(')
		if p.atom() != "_" {
			evErr("parse: expected indexed identifier in %q", p.s)
		}
		op = p.atom()
		for p.peek() != ')' {
			n, err := strconv.Atoi(p.atom())
			if err != nil {
				evErr("parse: index in %q", p.s)
			}
			idx = append(idx, n)
		}
		p.expect(')')
	} else {
		op = p.atom()
		if op == "_" {
			// (_ bvN w) literal or special values
			name := p.atom()
			var nums []int
			for p.peek() != ')' {
				n, _ := strconv.Atoi(p.atom())
				nums = append(nums, n)
			}
			p.expect(')')
			switch {
			case strings.HasPrefix(name, "bv") && len(nums) == 1:
				u, _ := strconv.ParseUint(name[2:], 10, 64)
				return ev{evBV, u & mask(nums[0]), nums[0]}
			case name == "+zero":
				return ev{k: evFP, u: 0}
			case name == "-zero":
				return ev{k: evFP, u: 1 << 63}
			case name == "+oo":
				return ev{k: evFP, u: math.Float64bits(math.Inf(1))}
			case name == "-oo":
				return ev{k: evFP, u: math.Float64bits(math.Inf(-1))}
			case name == "NaN":
				return ev{k: evFP, u: math.Float64bits(math.NaN())}
			}
			evErr("parse: unknown (_ %s ...)", name)
		}
	}
	if op == "ite" {
		c := p.expr()
		a := p.expr()
		b := p.expr()
		p.expect(')')
		if c.u != 0 {
			return a
		}
		return b
	}
	a := p.args()
	return applyOp(op, idx, a)
}

func (e *evaluator) atomValue(a string) ev {
	switch {
	case a == "true":
		return ev{evBool, 1, 0}
	case a == "false":
		return ev{evBool, 0, 0}
	case strings.HasPrefix(a, "#x"):
		u, err := strconv.ParseUint(a[2:], 16, 64)
		if err != nil {
			evErr("literal %s", a)
		}
		return ev{evBV, u, 4 * (len(a) - 2)}
	case strings.HasPrefix(a, "#b"):
		u, err := strconv.ParseUint(a[2:], 2, 64)
		if err != nil {
			evErr("literal %s", a)
		}
		return ev{evBV, u, len(a) - 2}
	case a == "RNE" || a == "RTZ" || a == "RNA" || a == "RTP" || a == "RTN":
		return ev{k: evRM, u: map[string]uint64{"RNE": 0, "RTZ": 1, "RNA": 2, "RTP": 3, "RTN": 4}[a]}
	}
	if v, ok := e.model[a]; ok {
		return v
	}
	if v, ok := e.memo[a]; ok {
		return v
	}
	if d, ok := e.defs[a]; ok {
		p := &evParser{s: d, e: e}
		v := p.expr()
		e.memo[a] = v
		return v
	}
	evErr("no value for %s", a)
	return ev{}
}

func b2u(b bool) uint64 {
	if b {
		return 1
	}
	return 0
}

func fpOf(v ev) float64 { return math.Float64frombits(v.u) }
func mkFP(f float64) ev { return ev{k: evFP, u: math.Float64bits(f)} }

func applyOp(op string, idx []int, a []ev) ev {
	bv := func(u uint64) ev { return ev{evBV, u & mask(a[0].w), a[0].w} }
	boolv := func(b bool) ev { return ev{evBool, b2u(b), 0} }
	switch op {
	case "not":
		return boolv(a[0].u == 0)
	case "and":
		for _, x := range a {
			if x.u == 0 {
				return boolv(false)
			}
		}
		return boolv(true)
	case "or":
		for _, x := range a {
			if x.u != 0 {
				return boolv(true)
			}
		}
		return boolv(false)
	case "=>":
		return boolv(a[0].u == 0 || a[1].u != 0)
	case "xor":
		return boolv((a[0].u != 0) != (a[1].u != 0))
	case "=":
		if a[0].k == evFP {
			// SMT = on FP is structural except all NaNs are equal
			x, y := fpOf(a[0]), fpOf(a[1])
			if math.IsNaN(x) || math.IsNaN(y) {
				return boolv(math.IsNaN(x) && math.IsNaN(y))
			}
			return boolv(a[0].u == a[1].u)
		}
		return boolv(a[0].u == a[1].u)
	case "distinct":
		return boolv(a[0].u != a[1].u)
	case "bvadd":
		return bv(a[0].u + a[1].u)
	case "bvsub":
		return bv(a[0].u - a[1].u)
	case "bvmul":
		return bv(a[0].u * a[1].u)
	case "bvand":
		return bv(a[0].u & a[1].u)
	case "bvor":
		return bv(a[0].u | a[1].u)
	case "bvxor":
		return bv(a[0].u ^ a[1].u)
	case "bvnot":
		return bv(^a[0].u)
	case "bvneg":
		return bv(-a[0].u)
	case "bvudiv":
		if a[1].u == 0 {
			return bv(^uint64(0))
		}
		return bv(a[0].u / a[1].u)
	case "bvurem":
		if a[1].u == 0 {
			return bv(a[0].u)
		}
		return bv(a[0].u % a[1].u)
	case "bvsdiv":
		x, y := sext(a[0].u, a[0].w), sext(a[1].u, a[1].w)
		if y == 0 {
			if x >= 0 {
				return bv(^uint64(0))
			}
			return bv(1)
		}
		if y == -1 {
			return bv(uint64(-x))
		}
		return bv(uint64(x / y))
	case "bvsrem":
		x, y := sext(a[0].u, a[0].w), sext(a[1].u, a[1].w)
		if y == 0 {
			return bv(uint64(x))
		}
		if y == -1 {
			return bv(0)
		}
		return bv(uint64(x % y))
	case "bvshl":
		if a[1].u >= uint64(a[0].w) {
			return bv(0)
		}
		return bv(a[0].u << a[1].u)
	case "bvlshr":
		if a[1].u >= uint64(a[0].w) {
			return bv(0)
		}
		return bv(a[0].u >> a[1].u)
	case "bvashr":
		x := sext(a[0].u, a[0].w)
		s := a[1].u
		if s >= uint64(a[0].w) {
			s = uint64(a[0].w) - 1
			if a[0].w == 0 {
				s = 0
			}
		}
		return bv(uint64(x >> s))
	case "bvult":
		return boolv(a[0].u < a[1].u)
	case "bvule":
		return boolv(a[0].u <= a[1].u)
	case "bvugt":
		return boolv(a[0].u > a[1].u)
	case "bvuge":
		return boolv(a[0].u >= a[1].u)
	case "bvslt":
		return boolv(sext(a[0].u, a[0].w) < sext(a[1].u, a[1].w))
	case "bvsle":
		return boolv(sext(a[0].u, a[0].w) <= sext(a[1].u, a[1].w))
	case "bvsgt":
		return boolv(sext(a[0].u, a[0].w) > sext(a[1].u, a[1].w))
	case "bvsge":
		return boolv(sext(a[0].u, a[0].w) >= sext(a[1].u, a[1].w))
	case "concat":
		return ev{evBV, (a[0].u << uint(a[1].w)) | a[1].u, a[0].w + a[1].w}
	case "extract":
		hi, lo := idx[0], idx[1]
		w := hi - lo + 1
		return ev{evBV, (a[0].u >> uint(lo)) & mask(w), w}
	case "zero_extend":
		return ev{evBV, a[0].u, a[0].w + idx[0]}
	case "sign_extend":
		w := a[0].w + idx[0]
		return ev{evBV, uint64(sext(a[0].u, a[0].w)) & mask(w), w}
	// floating point (binary64 only)
	case "to_fp":
		if len(idx) != 2 || idx[0] != 11 || idx[1] != 53 {
			evErr("to_fp: only binary64")
		}
		if len(a) == 1 { // from IEEE bits
			return ev{k: evFP, u: a[0].u}
		}
		if a[0].k != evRM {
			evErr("to_fp: rounding mode")
		}
		switch a[1].k {
		case evBV: // signed integer
			if a[0].u != 0 {
				evErr("to_fp from int: only RNE")
			}
			return mkFP(float64(sext(a[1].u, a[1].w)))
		case evFP:
			return a[1]
		}
		evErr("to_fp: operand")
	case "to_fp_unsigned":
		if a[0].u != 0 {
			evErr("to_fp_unsigned: only RNE")
		}
		return mkFP(float64(a[1].u))
	case "fp.add", "fp.sub", "fp.mul", "fp.div":
		if a[0].k != evRM || a[0].u != 0 {
			evErr("%s: only RNE", op)
		}
		x, y := fpOf(a[1]), fpOf(a[2])
		switch op {
		case "fp.add":
			return mkFP(x + y)
		case "fp.sub":
			return mkFP(x - y)
		case "fp.mul":
			return mkFP(x * y)
		}
		return mkFP(x / y)
	case "fp.sqrt":
		return mkFP(math.Sqrt(fpOf(a[1])))
	case "fp.neg":
		return ev{k: evFP, u: a[0].u ^ (1 << 63)}
	case "fp.abs":
		return ev{k: evFP, u: a[0].u &^ (1 << 63)}
	case "fp.eq":
		return boolv(fpOf(a[0]) == fpOf(a[1]))
	case "fp.lt":
		return boolv(fpOf(a[0]) < fpOf(a[1]))
	case "fp.leq":
		return boolv(fpOf(a[0]) <= fpOf(a[1]))
	case "fp.gt":
		return boolv(fpOf(a[0]) > fpOf(a[1]))
	case "fp.geq":
		return boolv(fpOf(a[0]) >= fpOf(a[1]))
	case "fp.isNaN":
		return boolv(math.IsNaN(fpOf(a[0])))
	case "fp.isInfinite":
		return boolv(math.IsInf(fpOf(a[0]), 0))
	case "fp.isZero":
		return boolv(fpOf(a[0]) == 0)
	case "fp.isNegative":
		return boolv(a[0].u>>63 == 1 && !math.IsNaN(fpOf(a[0])))
	case "fp.to_sbv", "fp.to_ubv":
		// RTZ only; out-of-range is unspecified in SMT-LIB: refuse to evaluate
		if a[0].k != evRM || a[0].u != 1 {
			evErr("%s: only RTZ", op)
		}
		f := fpOf(a[1])
		w := idx[0]
		if math.IsNaN(f) || math.IsInf(f, 0) {
			evErr("%s: unspecified", op)
		}
		t := math.Trunc(f)
		if op == "fp.to_sbv" {
			lim := math.Ldexp(1, w-1)
			if t < -lim || t >= lim {
				evErr("%s: unspecified", op)
			}
			return ev{evBV, uint64(int64(t)) & mask(w), w}
		}
		if t < 0 || t >= math.Ldexp(1, w) {
			evErr("%s: unspecified", op)
		}
		return ev{evBV, uint64(t) & mask(w), w}
	}
	evErr("unknown operator %s", op)
	return ev{}
}
