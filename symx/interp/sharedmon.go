package interp

// Shared-state monitor (second clause of C18): evaluations on separate stores can only
// influence each other through state that outlives one evaluation, i.e. through memory reachable
// from package-level variables of the library. After vxSharedWatch() the monitor knows every
// memory cell and map reachable from the target packages' globals and records every write to
// one of them (plain stores, stores through symbolic indices, map updates and deletes, atomic
// operations). A path on which the list stays empty has not modified any library-global state.

import (
	"fmt"
	"sort"
	"unsafe"

	"golang.org/x/tools/go/ssa"
)

type sharedMon struct {
	cells  map[*value]string   // cell -> global it is reachable from
	maps   map[*hashmap]string // map object -> global
	writes []string
	seen   map[string]bool
}

func (i *interpreter) sharedWatch() {
	m := &sharedMon{cells: map[*value]string{}, maps: map[*hashmap]string{}, seen: map[string]bool{}}
	var names []string
	byName := map[string]*ssa.Global{}
	for g := range i.globals {
		if g.Pkg == nil || !i.isTarget(g.Pkg) {
			continue
		}
		n := g.Pkg.Pkg.Path() + "." + g.Name()
		names = append(names, n)
		byName[n] = g
	}
	sort.Strings(names)
	for _, n := range names {
		m.reach(i.globals[byName[n]], n, 0)
	}
	i.sharedMon = m
}

// reach marks the cell and everything reachable from the value stored in it.
func (m *sharedMon) reach(cell *value, origin string, depth int) {
	if cell == nil || depth > 64 {
		return
	}
	if _, ok := m.cells[cell]; ok {
		return
	}
	m.cells[cell] = origin
	m.reachValue(*cell, origin, depth+1)
}

func (m *sharedMon) reachValue(v value, origin string, depth int) {
	if depth > 64 {
		return
	}
	switch x := v.(type) {
	case *value:
		m.reach(x, origin, depth)
	case structure:
		for k := range x {
			m.reach(&x[k], origin, depth)
		}
	case array:
		for k := range x {
			m.reach(&x[k], origin, depth)
		}
	case []value:
		for k := range x {
			m.reach(&x[k], origin, depth)
		}
	case iface:
		m.reachValue(x.v, origin, depth)
	case tuple:
		for k := range x {
			m.reachValue(x[k], origin, depth)
		}
	case *hashmap:
		if x == nil {
			return
		}
		if _, ok := m.maps[x]; ok {
			return
		}
		m.maps[x] = origin
		for _, e := range x.ents {
			m.reachValue(e.key, origin, depth)
			m.reach(&e.value, origin, depth)
		}
	case *closure:
		if x != nil {
			for k := range x.Env {
				m.reachValue(x.Env[k], origin, depth)
			}
		}
	}
}

func (i *interpreter) sharedNote(origin, how string, fr *frame) {
	m := i.sharedMon
	where := "?"
	if fr != nil && fr.fn != nil {
		where = fr.fn.String()
	}
	msg := fmt.Sprintf("%s of state reachable from %s in %s", how, origin, where)
	if !m.seen[msg] {
		m.seen[msg] = true
		m.writes = append(m.writes, msg)
	}
}

// sharedStore is called before a store to a cell.
func (i *interpreter) sharedStore(cell *value, fr *frame, how string) {
	if i.sharedMon == nil || cell == nil {
		return
	}
	if g, ok := i.sharedMon.cells[cell]; ok {
		i.sharedNote(g, how, fr)
	}
}

func (i *interpreter) sharedMapWrite(m *hashmap, fr *frame, how string) {
	if i.sharedMon == nil || m == nil {
		return
	}
	if g, ok := i.sharedMon.maps[m]; ok {
		i.sharedNote(g, how, fr)
	}
}

// ---- sync/atomic, single-goroutine semantics (the functions have no Go bodies) ----

func init() {
	cellOf := func(a value) *value {
		p, ok := a.(*value)
		if !ok || p == nil {
			panic(nilDeref())
		}
		return p
	}
	for _, ty := range []string{"Int32", "Int64", "Uint32", "Uint64", "Uintptr", "Pointer"} {
		ty := ty
		externals["sync/atomic.Load"+ty] = func(fr *frame, a []value) value { return *cellOf(a[0]) }
		externals["sync/atomic.Store"+ty] = func(fr *frame, a []value) value {
			c := cellOf(a[0])
			fr.i.sharedStore(c, fr.caller, "atomic store")
			*c = a[1]
			return nil
		}
		externals["sync/atomic.Swap"+ty] = func(fr *frame, a []value) value {
			c := cellOf(a[0])
			fr.i.sharedStore(c, fr.caller, "atomic swap")
			old := *c
			*c = a[1]
			return old
		}
		externals["sync/atomic.CompareAndSwap"+ty] = func(fr *frame, a []value) value {
			c := cellOf(a[0])
			eq := fr.i.symBinop(tokEQL, *c, a[1])
			if !fr.i.ps.decideV(eq) {
				return false
			}
			fr.i.sharedStore(c, fr.caller, "atomic compare-and-swap")
			*c = a[2]
			return true
		}
		if ty != "Pointer" {
			externals["sync/atomic.Add"+ty] = func(fr *frame, a []value) value {
				c := cellOf(a[0])
				fr.i.sharedStore(c, fr.caller, "atomic add")
				*c = fr.i.symBinop(tokADD, *c, a[1])
				return *c
			}
		}
	}
}

// atomicPointerExternal models the methods of the generic sync/atomic.Pointer[T]
// (struct{ _ [0]*T; _ noCopy; v unsafe.Pointer }) without going through unsafe.Pointer.
func atomicPointerExternal(name string) genericExt {
	const pre = "(*sync/atomic.Pointer["
	if len(name) < len(pre) || name[:len(pre)] != pre {
		return nil
	}
	dot := -1
	for k := len(name) - 1; k >= 0; k-- {
		if name[k] == '.' {
			dot = k
			break
		}
	}
	method := name[dot+1:]
	field := func(fr *frame, recv value) *value {
		p, ok := recv.(*value)
		if !ok || p == nil {
			panic(nilDeref())
		}
		st := (*p).(structure)
		return &st[len(st)-1]
	}
	norm := func(v value) value {
		switch x := v.(type) {
		case nil:
			return (*value)(nil)
		case unsafe.Pointer:
			if x == nil {
				return (*value)(nil)
			}
		}
		return v
	}
	switch method {
	case "Load":
		return func(fr *frame, fn *ssa.Function, a []value) value { return norm(*field(fr, a[0])) }
	case "Store":
		return func(fr *frame, fn *ssa.Function, a []value) value {
			c := field(fr, a[0])
			fr.i.sharedStore(c, fr.caller, "atomic pointer store")
			*c = a[1]
			return nil
		}
	case "Swap":
		return func(fr *frame, fn *ssa.Function, a []value) value {
			c := field(fr, a[0])
			fr.i.sharedStore(c, fr.caller, "atomic pointer swap")
			old := norm(*c)
			*c = a[1]
			return old
		}
	case "CompareAndSwap":
		return func(fr *frame, fn *ssa.Function, a []value) value {
			c := field(fr, a[0])
			if norm(*c) != a[1] {
				return false
			}
			fr.i.sharedStore(c, fr.caller, "atomic pointer compare-and-swap")
			*c = a[2]
			return true
		}
	}
	return nil
}
