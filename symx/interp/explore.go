package interp

// Exhaustive path exploration by re-execution, with parallel workers.

import (
	"sync/atomic"
	"fmt"
	"go/token"
	"go/types"
	"os"
	"runtime"
	"runtime/debug"
	"sort"
	"strings"
	"sync"
	"time"

	"golang.org/x/tools/go/ssa"
	typeparams "symx/interp/tp"
)

type Options struct {
	Workers      int
	SolverBin    string
	SolverTimeMs int
	MaxSteps     int64
	MaxDecisions int
	MaxPaths     int
	Params       map[string]int
	Twin         bool
	Deadline     time.Time
	StopOnFirst  bool
	witnessTickets int64
	Fixed        map[string]string // translator validation: nondets pinned to concrete values
	FixedChoices map[string]int    // vxChoose values pinned (symx-level replay)
	Transcript   string            // directory for solver transcripts (debug)
	WitnessMax   int               // sample up to this many completed paths with a concrete witness (inputs + choices)
	WitnessEvery int               // take every k-th completed path as a candidate (default 1)
	Trace        bool
}

type PathOutcome int

const (
	PathDone PathOutcome = iota
	PathPruned
	PathViolation
	PathPanic
	PathUnsupported
	PathBudget
	PathEngineError
)

type Result struct {
	Paths         int
	Completed     int
	Pruned        int
	Panics        int // unexpected target panics (counted as violations)
	Unsupported   map[string]int
	BudgetCuts    int
	EngineErrors  []string
	Asserts       int
	Discharged    int
	Inconclusive  int
	Decisions     int64
	Steps         int64
	Reached       map[string]int
	Violations    []Violation
	SolverQueries int
	SolverTime    time.Duration
	MaxQuery      time.Duration
	Fallbacks     int // solver unknowns resolved by another solver (fresh process, same assertions)
	Funcs         map[string]int64
	Samples       []map[string]string
	Observes      [][]string
	Wall          time.Duration
	Truncated     bool // MaxPaths or deadline hit
	DistinctCases map[string]int
	Witnesses     []Witness // concrete inputs of sampled completed paths (for native re-execution)
}

// Witness is a concrete input vector on which the symbolic run completed a path without
// violation: the native run of the harness on it must satisfy every assumption and assertion.
type Witness struct {
	Inputs  map[string]string
	Choices map[string]int
}

func (r *Result) Clean() bool {
	return len(r.Unsupported) == 0 && r.BudgetCuts == 0 && len(r.EngineErrors) == 0 && r.Inconclusive == 0 && !r.Truncated
}

type Harness struct {
	Prog     *ssa.Program
	Pkg      *ssa.Package
	Fn       *ssa.Function
	IsTarget func(*ssa.Package) bool
	stubs    map[string]*ssa.Function
}

func newInterp(h *Harness, ps *PathState, opt *Options) *interpreter {
	i := &interpreter{
		prog:       h.Prog,
		globals:    make(map[*ssa.Global]*value),
		sizes:      &types.StdSizes{WordSize: 8, MaxAlign: 8},
		goroutines: 1,
		isTarget:   h.IsTarget,
		ps:         ps,
		MaxSteps:   opt.MaxSteps,
		fnvBytes:   map[*value][]value{},
		funcsSeen:  map[*ssa.Function]int64{},
		stdInitOK:  stdInitAllowed,
	}
	if rt := h.Prog.ImportedPackage("runtime"); rt != nil {
		i.runtimeErrorString = rt.Type("errorString").Object().Type()
	}
	if ep := h.Prog.ImportedPackage("errors"); ep != nil {
		i.errorStringType = ep.Type("errorString").Object().Type()
	}
	initReflect(i)
	i.stubs = h.stubTable()
	for _, p := range h.Prog.AllPackages() {
		if !h.IsTarget(p) {
			continue
		}
		for _, m := range p.Members {
			if v, ok := m.(*ssa.Global); ok {
				cell := zero(typeparams.MustDeref(v.Type()))
				i.globals[v] = &cell
			}
		}
	}
	return i
}

type pathResult struct {
	outcome PathOutcome
	detail  string
	ps      *PathState
	steps   int64
	funcs   map[*ssa.Function]int64
	witness *Witness
}

func runPath(h *Harness, s *Solver, prefix []int32, opt *Options) (res pathResult) {
	ps := newPathState(s, prefix, opt.Params)
	ps.Twin = opt.Twin
	ps.Fixed = opt.Fixed
	ps.FixedChoices = opt.FixedChoices
	if opt.MaxDecisions > 0 {
		ps.MaxDecisions = opt.MaxDecisions
	}
	i := newInterp(h, ps, opt)
	res.ps = ps
	wantWitness := false
	if opt.WitnessMax > 0 {
		every := int64(opt.WitnessEvery)
		if every <= 0 {
			every = 1
		}
		n := atomic.AddInt64(&opt.witnessTickets, 1)
		wantWitness = (n-1)%every == 0 && (n-1)/every < int64(opt.WitnessMax)*4
	}
	s.send("(push)")
	defer func() {
		res.steps = i.Steps
		res.funcs = i.funcsSeen
		r := recover()
		// classify
		switch p := r.(type) {
		case nil:
			res.outcome = PathDone
		case pathAbort:
			res.outcome = PathPruned
		case violationAbort:
			res.outcome = PathViolation
		case unsupportedAbort:
			res.outcome = PathUnsupported
			res.detail = p.what
		case budgetAbort:
			res.outcome = PathBudget
			res.detail = p.what
		case engineError:
			res.outcome = PathEngineError
			res.detail = p.msg
		case targetPanic:
			res.outcome = PathPanic
			res.detail = "panic: " + panicText(i, p.v)
		case runtime.Error:
			msg := p.Error()
			if strings.Contains(msg, "interface conversion") || strings.Contains(msg, "interp.") {
				res.outcome = PathEngineError
				res.detail = msg + "\n" + string(debug.Stack())
			} else {
				res.outcome = PathEngineError
				res.detail = "interpreter runtime error: " + msg + "\n" + string(debug.Stack())
			}
		case string:
			res.outcome = PathEngineError
			res.detail = "interp panic: " + p + "\n" + string(debug.Stack())
		default:
			res.outcome = PathEngineError
			res.detail = fmt.Sprintf("unexpected panic %T: %v", r, r)
		}
		if res.outcome == PathPanic {
			if ps.ExpectPanic {
				res.outcome = PathDone
			} else {
				// a feasible panic is a violation: get a witness
				v := Violation{Label: "no-panic", Tag: ps.tagString(), Kind: "panic", Detail: res.detail, Choices: toInts(ps.Trace)}
				func() {
					defer func() {
						if rr := recover(); rr != nil {
							v.Inconclusive = true
						}
					}()
					if ps.mValid && !ps.NoModel {
						v.Inputs = ps.modelInputs()
					} else if s.check() == "sat" {
						v.Inputs = ps.model()
					} else {
						v.Inconclusive = true
					}
				}()
				ps.Viol = append(ps.Viol, v)
			}
		}
		for k := range ps.Viol {
			ps.Viol[k].ChoiceVals = ps.ChoiceVals
		}
		if wantWitness && res.outcome == PathDone && len(ps.Viol) == 0 && !ps.ExpectPanic {
			func() {
				defer func() { recover() }()
				var in map[string]string
				if ps.mValid && !ps.NoModel {
					in = ps.modelInputs()
				} else if s.check() == "sat" {
					in = ps.model()
				}
				if in != nil {
					ch := map[string]int{}
					for k, v := range ps.ChoiceVals {
						ch[k] = v
					}
					res.witness = &Witness{Inputs: in, Choices: ch}
				}
			}()
		}
		func() {
			defer func() { recover() }()
			s.send("(pop)")
		}()
	}()
	call(i, nil, token.NoPos, h.Pkg.Func("init"), nil)
	call(i, nil, token.NoPos, h.Fn, nil)
	return
}

func panicText(i *interpreter, v value) string {
	if ifc, ok := v.(iface); ok && ifc.t != nil {
		if s, ok := ifc.v.(string); ok {
			return s
		}
		if m := findMethod(i, ifc.t, "Error"); m != nil {
			var out string
			func() {
				defer func() {
					if r := recover(); r != nil {
						out = toString(v)
					}
				}()
				r := call(i, nil, token.NoPos, m, []value{ifc.v})
				out = toString(r)
			}()
			return out
		}
	}
	return toString(v)
}

// Explore runs the harness over all feasible paths.
func Explore(h *Harness, opt Options) *Result {
	t0 := time.Now()
	if opt.Workers <= 0 {
		opt.Workers = 1
	}
	if opt.MaxSteps <= 0 {
		opt.MaxSteps = 50_000_000
	}
	if opt.SolverBin == "" {
		opt.SolverBin = "z3"
	}
	h.stubTable()
	res := &Result{Unsupported: map[string]int{}, Reached: map[string]int{}, Funcs: map[string]int64{}, DistinctCases: map[string]int{}}
	var mu sync.Mutex
	cond := sync.NewCond(&mu)
	work := [][]int32{nil}
	active := 0
	stop := false
	funcs := map[*ssa.Function]int64{}

	worker := func(id int) {
		s, err := NewSolver(opt.SolverBin, opt.SolverTimeMs)
		if err != nil {
			mu.Lock()
			res.EngineErrors = append(res.EngineErrors, "solver start: "+err.Error())
			stop = true
			cond.Broadcast()
			mu.Unlock()
			return
		}
		if opt.Transcript != "" {
			f, _ := os.Create(fmt.Sprintf("%s/solver-%d.smt2", opt.Transcript, id))
			if f != nil {
				s.Transcript = f
				defer f.Close()
			}
		}
		defer func() {
			mu.Lock()
			res.SolverQueries += s.Queries
			res.SolverTime += s.Time
			res.Fallbacks += s.Fallbacks
			if s.MaxQuery > res.MaxQuery {
				res.MaxQuery = s.MaxQuery
			}
			mu.Unlock()
			s.Close()
		}()
		for {
			mu.Lock()
			for len(work) == 0 && active > 0 && !stop {
				cond.Wait()
			}
			if stop || (len(work) == 0 && active == 0) {
				cond.Broadcast()
				mu.Unlock()
				return
			}
			prefix := work[len(work)-1]
			work = work[:len(work)-1]
			active++
			mu.Unlock()

			pr := runPath(h, s, prefix, &opt)
			if pr.outcome == PathEngineError && strings.Contains(pr.detail, "solver died") {
				// restart the solver for subsequent paths
				s.Close()
				s2, err := NewSolver(opt.SolverBin, opt.SolverTimeMs)
				if err == nil {
					s2.Queries, s2.Time, s2.MaxQuery, s2.Fallbacks = s.Queries, s.Time, s.MaxQuery, s.Fallbacks
					*s = *s2
				}
			}

			mu.Lock()
			active--
			res.Paths++
			res.Steps += pr.steps
			res.Asserts += pr.ps.Asserts
			res.Discharged += pr.ps.Discharged
			res.Inconclusive += pr.ps.Inconcl
			res.Decisions += int64(pr.ps.Decisions)
			for k, v := range pr.ps.Reached {
				res.Reached[k] += v
			}
			for f, n := range pr.funcs {
				funcs[f] += n
			}
			switch pr.outcome {
			case PathDone:
				res.Completed++
			case PathPruned:
				res.Pruned++
			case PathViolation:
			case PathPanic:
				res.Panics++
			case PathUnsupported:
				res.Unsupported[pr.detail]++
			case PathBudget:
				res.BudgetCuts++
			case PathEngineError:
				if len(res.EngineErrors) < 20 {
					res.EngineErrors = append(res.EngineErrors, pr.detail)
				} else if len(res.EngineErrors) == 20 {
					res.EngineErrors = append(res.EngineErrors, "...")
				}
			}
			if len(pr.ps.Choices) > 0 {
				res.DistinctCases[strings.Join(pr.ps.Choices, " ")]++
			}
			res.Violations = append(res.Violations, pr.ps.Viol...)
			if pr.witness != nil && len(res.Witnesses) < opt.WitnessMax {
				res.Witnesses = append(res.Witnesses, *pr.witness)
			}
			if len(pr.ps.Observes) > 0 && len(res.Observes) < 8 {
				res.Observes = append(res.Observes, pr.ps.Observes)
			}
			if pr.outcome == PathDone && len(res.Samples) < 5 && len(pr.ps.Nondets) > 0 {
				// sample: the decision trace of this path
				res.Samples = append(res.Samples, map[string]string{
					"decisions": fmt.Sprint(pr.ps.Trace),
					"choices":   strings.Join(pr.ps.Choices, " "),
					"asserts":   fmt.Sprint(pr.ps.Asserts),
				})
			}
			work = append(work, pr.ps.Alts...)
			if opt.StopOnFirst && len(res.Violations) > 0 {
				stop = true
			}
			if opt.MaxPaths > 0 && res.Paths >= opt.MaxPaths && len(work) > 0 {
				stop = true
				res.Truncated = true
			}
			if !opt.Deadline.IsZero() && time.Now().After(opt.Deadline) && (len(work) > 0 || active > 0) {
				stop = true
				res.Truncated = true
			}
			cond.Broadcast()
			mu.Unlock()
		}
	}
	var wg sync.WaitGroup
	for w := 0; w < opt.Workers; w++ {
		wg.Add(1)
		go func(id int) { defer wg.Done(); worker(id) }(w)
	}
	wg.Wait()
	for f, n := range funcs {
		if pk := fnPkg(f); pk != nil && h.IsTarget(pk) {
			name := f.String()
			if strings.Contains(name, "vx") || strings.Contains(name, "Vx") || strings.HasSuffix(name, ".init") {
				continue
			}
			res.Funcs[name] += n
		}
	}
	sort.Slice(res.Violations, func(a, b int) bool {
		if res.Violations[a].Label != res.Violations[b].Label {
			return res.Violations[a].Label < res.Violations[b].Label
		}
		return fmt.Sprint(res.Violations[a].Choices) < fmt.Sprint(res.Violations[b].Choices)
	})
	res.Wall = time.Since(t0)
	return res
}

// stubTable collects harness-supplied stubs: a function VxStub_<pkgname>_<Func> in the harness
// package replaces <module>/<pkgname>.<Func> (used for the ANTLR-backed parse entry points).
func (h *Harness) stubTable() map[string]*ssa.Function {
	if h.stubs != nil {
		return h.stubs
	}
	h.stubs = map[string]*ssa.Function{}
	for name, m := range h.Pkg.Members {
		f, ok := m.(*ssa.Function)
		if !ok || !strings.HasPrefix(name, "VxStub_") {
			continue
		}
		parts := strings.SplitN(strings.TrimPrefix(name, "VxStub_"), "_", 2)
		if len(parts) != 2 {
			continue
		}
		for _, p := range h.Prog.AllPackages() {
			if h.IsTarget(p) && p.Pkg.Name() == parts[0] {
				if tf := p.Func(parts[1]); tf != nil {
					h.stubs[tf.String()] = f
				}
			}
		}
	}
	return h.stubs
}
