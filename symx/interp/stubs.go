package interp

// Models of standard-library and third-party functions called by mangle.
// Each either runs natively when all arguments are concrete, handles
// symbolic bytes/scalars explicitly, or aborts the path as unsupported.

import (
	"unicode"
	"fmt"
	"go/types"
	"math"
	"net/url"
	"sort"
	"strconv"
	"strings"
	"time"

	"golang.org/x/tools/go/ssa"
)

// interpretable foreign functions (pure Go, no unsafe/asm on the paths used)
var allowPrefix = []string{
	"internal/stringslite.HasPrefix", "internal/stringslite.HasSuffix", "internal/stringslite.TrimPrefix", "internal/stringslite.TrimSuffix",
	"bitbucket.org/creachadair/stringset.", "(bitbucket.org/creachadair/stringset.", "(*bitbucket.org/creachadair/stringset.",
	"errors.New", "(*errors.errorString)", "errors.Join", "(*errors.joinError)",
	"unicode/utf8.",
	"strings.HasPrefix", "strings.HasSuffix", "strings.TrimPrefix", "strings.TrimSuffix", "strings.Repeat",
	"strings.TrimSpace", "strings.TrimFunc", "strings.TrimLeftFunc", "strings.TrimRightFunc", "strings.indexFunc", "strings.lastIndexFunc",
	"iter.", "slices.", "cmp.", "maps.", "sort.", "(sort.", "(*sort.",
	"math/bits.", "encoding/binary.", "(encoding/binary.",
	"go.uber.org/multierr.", "(*go.uber.org/multierr.", "(go.uber.org/multierr.",
	"hash/fnv.New64",
	"bytes.NewReader", "(*bytes.Reader).", "(*strings.Reader).", "io.ReadAll", "io.NopCloser", "(io.nopCloser", "(io.nopCloserWriterTo",
	"bufio.NewScanner", "(*bufio.Scanner).", "bufio.ScanLines", "bufio.dropCR", "bufio.isSpace",
	"bytes.IndexByte", "bytes.Equal",
	"strconv.Itoa", "strconv.FormatInt", "strconv.formatBits", "strconv.small", "strconv.Atoi", "strconv.ParseInt", "strconv.ParseUint", "strconv.underscoreOK", "strconv.lower", "strconv.syntaxError", "strconv.rangeError", "strconv.cloneString", "strconv.bitSizeError", "strconv.baseError", "(*strconv.NumError)",
	"net/url.QueryUnescape", "net/url.unescape", "net/url.ishex", "net/url.unhex", "net/url.QueryEscape", "net/url.escape", "net/url.shouldEscape", "(net/url.EscapeError)", "(net/url.InvalidHostError)",
	"sync/atomic.", "(*sync/atomic.", "(*sync.Once).", "(*sync.Mutex).", "(*sync.Pool).",
	"time.Duration.", "(time.Duration).", "(time.Month).", "(time.Weekday).",
}

func allowed(name string) bool {
	for _, p := range allowPrefix {
		if strings.HasPrefix(name, p) {
			return true
		}
	}
	return false
}

var stdInitAllowed = map[string]bool{
	"io": true, "bufio": true, "bytes": true, "strconv": true,
	"unicode/utf8": true, "sort": true, "iter": true, "slices": true, "maps": true, "cmp": true,
	"go.uber.org/multierr": true, "bitbucket.org/creachadair/stringset": true,
	"encoding/binary": true, "hash/fnv": true, "math/bits": true, "strings": true,
}

func fnPkg(fn *ssa.Function) *ssa.Package {
	root := fn
	for root.Parent() != nil {
		root = root.Parent()
	}
	pk := root.Pkg
	if pk == nil && root.Origin() != nil {
		pk = root.Origin().Pkg
	}
	return pk
}

type genericExt func(fr *frame, fn *ssa.Function, args []value) value

func genericExternal(name string) genericExt {
	if strings.HasPrefix(name, "iter.Pull[") {
		return extIterPull
	}
	if ext := atomicPointerExternal(name); ext != nil {
		return ext
	}
	return nil
}

func (i *interpreter) errorValue(msg value) value {
	var cell value = structure{msg}
	return iface{t: types.NewPointer(i.errorStringType), v: &cell}
}

func findMethod(i *interpreter, t types.Type, name string) *ssa.Function {
	ms := i.prog.MethodSets.MethodSet(t)
	for k := 0; k < ms.Len(); k++ {
		if ms.At(k).Obj().Name() == name {
			return i.prog.MethodValue(ms.At(k))
		}
	}
	return nil
}

// fmtArgs renders args for a format string. strict: symbolic scalars abort the path.
func fmtValue(fr *frame, a value, verb byte, strict bool) value {
	if ifc, ok := a.(iface); ok {
		if ifc.t == nil {
			return "<nil>"
		}
		if verb == 'v' || verb == 's' || verb == 'q' {
			for _, mn := range []string{"Error", "String"} {
				if m := findMethod(fr.i, ifc.t, mn); m != nil {
					return quoteIf(verb, callLenient(fr, m, ifc.v, strict))
				}
			}
		}
		if verb == 'T' {
			return ifc.t.String()
		}
		return fmtValue(fr, ifc.v, verb, strict)
	}
	switch x := a.(type) {
	case string:
		if verb == 'q' {
			return strconv.Quote(x)
		}
		if verb == 'x' {
			return fmt.Sprintf("%x", x)
		}
		return x
	case symstr:
		if verb == 'q' {
			return strConcat(strConcat("\"", x), "\"")
		}
		return x
	case sym:
		if (verb == 'd' || verb == 'v') && x.k.isInt() {
			if !strict {
				return "<sym>"
			}
			return fr.i.symFormatInt(x)
		}
		if verb == 'v' && x.k == kBool && strict {
			if fr.i.ps.decide(x) {
				return "true"
			}
			return "false"
		}
		if strict {
			panic(unsupportedAbort{"formatting a symbolic scalar with %" + string(verb)})
		}
		return "<sym>"
	case bool, int, int8, int16, int32, int64, uint, uint8, uint16, uint32, uint64, uintptr, float64, float32:
		return fmt.Sprintf("%"+string(verb), x)
	case []value:
		var out value = "["
		for k, e := range x {
			if k > 0 {
				out = strConcat(out, " ")
			}
			out = strConcat(out, fmtValue(fr, e, verb, strict))
		}
		return strConcat(out, "]")
	case structure:
		var out value = "{"
		for k, e := range x {
			if k > 0 {
				out = strConcat(out, " ")
			}
			out = strConcat(out, fmtValue(fr, e, 'v', strict))
		}
		return strConcat(out, "}")
	case *value:
		if x == nil {
			return "<nil>"
		}
		return "&" + "<ptr>"
	case *hashmap:
		return "map[...]"
	}
	if a == nil {
		return "<nil>"
	}
	return fmt.Sprintf("<%T>", a)
}

// callLenient calls a String/Error method; in non-strict (error message) mode an
// unsupported operation inside it yields a placeholder instead of aborting the path.
func callLenient(fr *frame, m *ssa.Function, recv value, strict bool) (out value) {
	if !strict {
		fr.i.lenient++
		defer func() { fr.i.lenient-- }()
		defer func() {
			if r := recover(); r != nil {
				if _, ok := r.(unsupportedAbort); ok {
					out = "<sym>"
					return
				}
				panic(r)
			}
		}()
	}
	return call(fr.i, fr, 0, m, []value{recv})
}

func quoteIf(verb byte, s value) value {
	if verb == 'q' {
		if c, ok := s.(string); ok {
			return strconv.Quote(c)
		}
		return strConcat(strConcat("\"", s), "\"")
	}
	return s
}

func fmtSprintf(fr *frame, format string, args []value, strict bool) value {
	if fr.i.lenient > 0 {
		strict = false // inside the construction of an error message: never fork, never abort
	}
	var out value = ""
	ai := 0
	for k := 0; k < len(format); k++ {
		c := format[k]
		if c != '%' {
			j := k
			for j < len(format) && format[j] != '%' {
				j++
			}
			out = strConcat(out, format[k:j])
			k = j - 1
			continue
		}
		k++
		if k >= len(format) {
			out = strConcat(out, "%!(NOVERB)")
			break
		}
		// flags/width (only simple ones are used by mangle)
		start := k
		for k < len(format) && strings.IndexByte("+-# 0123456789.", format[k]) >= 0 {
			k++
		}
		flags := format[start:k]
		verb := format[k]
		if verb == '%' {
			out = strConcat(out, "%")
			continue
		}
		if ai >= len(args) {
			out = strConcat(out, "%!"+string(verb)+"(MISSING)")
			continue
		}
		a := args[ai]
		ai++
		if flags != "" {
			// width/flags: only with concrete basic values
			if ifc, ok := a.(iface); ok {
				a = ifc.v
			}
			switch a.(type) {
			case bool, int, int8, int16, int32, int64, uint, uint8, uint16, uint32, uint64, uintptr, float64, float32, string:
				out = strConcat(out, fmt.Sprintf("%"+flags+string(verb), a))
				continue
			}
			if strict {
				panic(unsupportedAbort{"fmt flags with non-basic or symbolic value"})
			}
		}
		out = strConcat(out, fmtValue(fr, a, verb, strict))
	}
	return out
}

func init() {
	externals["regexp.MustCompile"] = func(fr *frame, args []value) value { return (*value)(nil) }
	externals["fmt.Errorf"] = func(fr *frame, args []value) value {
		// %w: keep the wrapped error reachable for errors.Is
		format := strArg(args[0])
		va := args[1].([]value)
		msg := fmtSprintf(fr, strings.ReplaceAll(format, "%w", "%v"), va, false)
		if strings.Contains(format, "%w") {
			for _, a := range va {
				if ifc, ok := a.(iface); ok && ifc.t != nil && findMethod(fr.i, ifc.t, "Error") != nil {
					return fr.i.wrapErrorValue(msg, ifc)
				}
			}
		}
		return fr.i.errorValue(msg)
	}
	externals["fmt.Sprintf"] = func(fr *frame, args []value) value {
		return fmtSprintf(fr, strArg(args[0]), args[1].([]value), true)
	}
	externals["fmt.Sprint"] = func(fr *frame, args []value) value {
		var out value = ""
		for _, a := range args[0].([]value) {
			out = strConcat(out, fmtValue(fr, a, 'v', true))
		}
		return out
	}
	writeTo := func(fr *frame, w value, s value) value {
		ifc := w.(iface)
		if ifc.t == nil {
			panic(nilDeref())
		}
		if m := findMethod(fr.i, ifc.t, "WriteString"); m != nil {
			call(fr.i, fr, 0, m, []value{ifc.v, s})
		} else {
			m := findMethod(fr.i, ifc.t, "Write")
			call(fr.i, fr, 0, m, []value{ifc.v, append([]value(nil), strBytes(s)...)})
		}
		return tuple{strLen(s), iface{}}
	}
	externals["fmt.Fprintf"] = func(fr *frame, args []value) value {
		return writeTo(fr, args[0], fmtSprintf(fr, strArg(args[1]), args[2].([]value), true))
	}
	externals["fmt.Fprint"] = func(fr *frame, args []value) value {
		var out value = ""
		for _, a := range args[1].([]value) {
			out = strConcat(out, fmtValue(fr, a, 'v', true))
		}
		return writeTo(fr, args[0], out)
	}
	externals["fmt.Fprintln"] = func(fr *frame, args []value) value {
		var out value = ""
		for k, a := range args[1].([]value) {
			if k > 0 {
				out = strConcat(out, " ")
			}
			out = strConcat(out, fmtValue(fr, a, 'v', true))
		}
		return writeTo(fr, args[0], strConcat(out, "\n"))
	}
	externals["errors.Is"] = func(fr *frame, args []value) value {
		err, target := args[0].(iface), args[1].(iface)
		for depth := 0; depth < 32; depth++ {
			if err.t == nil {
				return target.t == nil
			}
			if sameType(err.t, target.t) && types.Comparable(err.t) {
				if fr.i.ps.decideV(symEq(err.t, err.v, target.v)) {
					return true
				}
			}
			m := findMethod(fr.i, err.t, "Unwrap")
			if m == nil {
				return false
			}
			r := call(fr.i, fr, 0, m, []value{err.v})
			next, ok := r.(iface)
			if !ok {
				return false // Unwrap() []error: not used by mangle
			}
			err = next
		}
		return false
	}
}

// wrapErrorValue builds a *fmt.wrapError{msg, err}.
func (i *interpreter) wrapErrorValue(msg value, inner iface) value {
	fp := i.prog.ImportedPackage("fmt")
	if fp == nil || fp.Type("wrapError") == nil {
		return i.errorValue(msg)
	}
	t := fp.Type("wrapError").Object().Type()
	var cell value = structure{msg, inner}
	return iface{t: types.NewPointer(t), v: &cell}
}

func init() {
	externals["(*fmt.wrapError).Error"] = func(fr *frame, a []value) value {
		return (*a[0].(*value)).(structure)[0]
	}
	externals["(*fmt.wrapError).Unwrap"] = func(fr *frame, a []value) value {
		return (*a[0].(*value)).(structure)[1]
	}
}

func toStrings(v value) []value { return v.([]value) }

// strIndexFrom finds the first index >= from where sub occurs in s (by decisions).
func (i *interpreter) strIndex(s, sub value, from int) int {
	n, m := strLen(s), strLen(sub)
	sb := strBytes(s)
	for p := from; p+m <= n; p++ {
		if i.ps.decideV(strEq(mkStr(sb[p:p+m]), sub)) {
			return p
		}
	}
	return -1
}

func (i *interpreter) strLastIndex(s, sub value) int {
	n, m := strLen(s), strLen(sub)
	sb := strBytes(s)
	for p := n - m; p >= 0; p-- {
		if i.ps.decideV(strEq(mkStr(sb[p:p+m]), sub)) {
			return p
		}
	}
	return -1
}

func bothConcrete(vs ...value) bool {
	for _, v := range vs {
		if _, ok := v.(string); !ok {
			return false
		}
	}
	return true
}

func init() {
	externals["strings.Contains"] = func(fr *frame, a []value) value {
		if bothConcrete(a[0], a[1]) {
			return strings.Contains(a[0].(string), a[1].(string))
		}
		return fr.i.strIndex(a[0], a[1], 0) >= 0
	}
	externals["strings.Index"] = func(fr *frame, a []value) value {
		if bothConcrete(a[0], a[1]) {
			return strings.Index(a[0].(string), a[1].(string))
		}
		return fr.i.strIndex(a[0], a[1], 0)
	}
	externals["strings.IndexByte"] = func(fr *frame, a []value) value {
		bs := strBytes(a[0])
		for p, b := range bs {
			if fr.i.ps.decideV(scalarEq(b, a[1])) {
				return p
			}
		}
		return -1
	}
	externals["bytes.IndexByte"] = func(fr *frame, a []value) value {
		for p, b := range a[0].([]value) {
			if fr.i.ps.decideV(scalarEq(b, a[1])) {
				return p
			}
		}
		return -1
	}
	externals["bytes.Equal"] = func(fr *frame, a []value) value {
		return strEq(mkStr(a[0].([]value)), mkStr(a[1].([]value)))
	}
	externals["strings.LastIndex"] = func(fr *frame, a []value) value {
		if bothConcrete(a[0], a[1]) {
			return strings.LastIndex(a[0].(string), a[1].(string))
		}
		return fr.i.strLastIndex(a[0], a[1])
	}
	externals["strings.ContainsRune"] = func(fr *frame, a []value) value {
		if s, ok := a[0].(string); ok {
			if r, ok := a[1].(rune); ok {
				return strings.ContainsRune(s, r)
			}
		}
		it := &symStringIter{i: fr.i, b: strBytes(a[0])}
		for {
			t := it.next()
			if !t[0].(bool) {
				return false
			}
			if fr.i.ps.decideV(scalarEq(t[2], a[1])) {
				return true
			}
		}
	}
	externals["strings.Split"] = func(fr *frame, a []value) value {
		if bothConcrete(a[0], a[1]) {
			parts := strings.Split(a[0].(string), a[1].(string))
			out := make([]value, len(parts))
			for k, p := range parts {
				out[k] = p
			}
			return out
		}
		if strLen(a[1]) == 0 {
			panic(unsupportedAbort{"strings.Split with empty separator on symbolic string"})
		}
		s := a[0]
		var out []value
		for {
			p := fr.i.strIndex(s, a[1], 0)
			if p < 0 {
				out = append(out, s)
				return out
			}
			sb := strBytes(s)
			out = append(out, mkStr(sb[:p]))
			s = mkStr(sb[p+strLen(a[1]):])
		}
	}
	externals["strings.Join"] = func(fr *frame, a []value) value {
		var out value = ""
		for k, p := range a[0].([]value) {
			if k > 0 {
				out = strConcat(out, a[1])
			}
			out = strConcat(out, p)
		}
		return out
	}
	externals["strings.Replace"] = func(fr *frame, a []value) value {
		if bothConcrete(a[0], a[1], a[2]) {
			return strings.Replace(a[0].(string), a[1].(string), a[2].(string), int(asInt64(a[3])))
		}
		n := int(asInt64(a[3]))
		if strLen(a[1]) == 0 {
			panic(unsupportedAbort{"strings.Replace with empty old on symbolic string"})
		}
		s := a[0]
		var out value = ""
		for cnt := 0; n < 0 || cnt < n; cnt++ {
			p := fr.i.strIndex(s, a[1], 0)
			if p < 0 {
				break
			}
			sb := strBytes(s)
			out = strConcat(strConcat(out, mkStr(sb[:p])), a[2])
			s = mkStr(sb[p+strLen(a[1]):])
		}
		return strConcat(out, s)
	}
	caseMap := func(upper bool) externalFn {
		return func(fr *frame, a []value) value {
			if s, ok := a[0].(string); ok {
				if upper {
					return strings.ToUpper(s)
				}
				return strings.ToLower(s)
			}
			panic(unsupportedAbort{"case mapping of symbolic string"})
		}
	}
	externals["strings.ToLower"] = caseMap(false)
	externals["strings.ToUpper"] = caseMap(true)
	externals["strings.TrimSpace"] = func(fr *frame, a []value) value {
		if s, ok := a[0].(string); ok {
			return strings.TrimSpace(s)
		}
		// symbolic bytes: interpret the real code (asciiSpace table, unicode.IsSpace model below)
		return interpretInstead{}
	}
	externals["unicode.IsSpace"] = func(fr *frame, a []value) value {
		r, ok := a[0].(sym)
		if !ok {
			return unicode.IsSpace(rune(asInt64(a[0])))
		}
		// White_Space: U+0009..000D, 0020, 0085, 00A0, 1680, 2000..200A, 2028, 2029, 202F, 205F, 3000
		in := func(lo, hi uint32) string {
			if lo == hi {
				return "(= " + r.t + " " + bvLit(uint64(lo), 32) + ")"
			}
			return "(and (bvuge " + r.t + " " + bvLit(uint64(lo), 32) + ") (bvule " + r.t + " " + bvLit(uint64(hi), 32) + "))"
		}
		t := "(or " + in(0x09, 0x0d) + " " + in(0x20, 0x20) + " " + in(0x85, 0x85) + " " + in(0xa0, 0xa0) + " " + in(0x1680, 0x1680) + " " +
			in(0x2000, 0x200a) + " " + in(0x2028, 0x2029) + " " + in(0x202f, 0x202f) + " " + in(0x205f, 0x205f) + " " + in(0x3000, 0x3000) + ")"
		return sym{kBool, t}
	}
	// strings.Builder: structure{addr *Builder, buf []byte}
	bld := func(a value) *structure {
		p := a.(*value)
		if p == nil {
			panic(nilDeref())
		}
		s := (*p).(structure)
		return &s
	}
	externals["(*strings.Builder).WriteString"] = func(fr *frame, a []value) value {
		b := bld(a[0])
		buf, _ := (*b)[1].([]value)
		(*b)[1] = append(buf, strBytes(a[1])...)
		return tuple{strLen(a[1]), iface{}}
	}
	externals["(*strings.Builder).WriteByte"] = func(fr *frame, a []value) value {
		b := bld(a[0])
		buf, _ := (*b)[1].([]value)
		(*b)[1] = append(buf, a[1])
		return iface{}
	}
	externals["(*strings.Builder).Write"] = func(fr *frame, a []value) value {
		b := bld(a[0])
		buf, _ := (*b)[1].([]value)
		(*b)[1] = append(buf, a[1].([]value)...)
		return tuple{len(a[1].([]value)), iface{}}
	}
	externals["(*strings.Builder).WriteRune"] = func(fr *frame, a []value) value {
		b := bld(a[0])
		buf, _ := (*b)[1].([]value)
		var s value
		switch r := a[1].(type) {
		case rune:
			s = string(r)
		case sym:
			s = fr.i.runeToString(r)
		}
		(*b)[1] = append(buf, strBytes(s)...)
		return tuple{strLen(s), iface{}}
	}
	externals["(*strings.Builder).String"] = func(fr *frame, a []value) value {
		b := bld(a[0])
		buf, _ := (*b)[1].([]value)
		return mkStr(buf)
	}
	externals["(*strings.Builder).Len"] = func(fr *frame, a []value) value {
		b := bld(a[0])
		buf, _ := (*b)[1].([]value)
		return len(buf)
	}
	externals["(*strings.Builder).Grow"] = func(fr *frame, a []value) value { return nil }
	externals["(*strings.Builder).Reset"] = func(fr *frame, a []value) value {
		b := bld(a[0])
		(*b)[1] = []value(nil)
		return nil
	}
	// strings.Replacer: we keep the oldnew list in a side table keyed by the pointer.
	externals["strings.NewReplacer"] = func(fr *frame, a []value) value {
		var cell value = structure{append([]value(nil), a[0].([]value)...)}
		return &cell
	}
	externals["(*strings.Replacer).Replace"] = func(fr *frame, a []value) value {
		pairs := (*a[0].(*value)).(structure)[0].([]value)
		s := strBytes(a[1])
		var out []value
		for p := 0; p < len(s); {
			matched := false
			for k := 0; k+1 < len(pairs); k += 2 {
				old := pairs[k]
				m := strLen(old)
				if m == 0 {
					panic(unsupportedAbort{"Replacer with empty old string"})
				}
				if p+m <= len(s) && fr.i.ps.decideV(strEq(mkStr(s[p:p+m]), old)) {
					out = append(out, strBytes(pairs[k+1])...)
					p += m
					matched = true
					break
				}
			}
			if !matched {
				out = append(out, s[p])
				p++
			}
		}
		return mkStr(out)
	}
	externals["strings.NewReader"] = func(fr *frame, a []value) value {
		// *strings.Reader{s string, i int64, prevRune int}; its methods are interpreted from source
		var cell value = structure{a[0], int64(0), int(-1)}
		return &cell
	}
}

// ---- hashing (H-fnv) ----

func fnv64(bs []byte) uint64 {
	h := uint64(14695981039346656037)
	for _, b := range bs {
		h *= 1099511628211
		h ^= uint64(b)
	}
	return h
}

func init() {
	externals["(*hash/fnv.sum64).Write"] = func(fr *frame, a []value) value {
		p := a[0].(*value)
		data := a[1].([]value)
		fr.i.fnvBytes[p] = append(fr.i.fnvBytes[p], data...)
		return tuple{len(data), iface{}}
	}
	externals["(*hash/fnv.sum64).Sum64"] = func(fr *frame, a []value) value {
		p := a[0].(*value)
		return fr.i.ps.hashStub(fr.i.fnvBytes[p], fnv64)
	}
}

// ---- sort ----

func init() {
	// sort.Slice: stable insertion sort using the real less closure (S-sort).
	sortSlice := func(fr *frame, a []value) value {
		ifc := a[0].(iface)
		xs, ok := ifc.v.([]value)
		if !ok {
			panic(engineError{"sort.Slice on non-slice"})
		}
		less := a[1]
		for p := 1; p < len(xs); p++ {
			for q := p; q > 0; q-- {
				r := call(fr.i, fr, 0, less, []value{q, q - 1})
				if !fr.i.ps.decideV(r) {
					break
				}
				xs[q], xs[q-1] = xs[q-1], xs[q]
			}
		}
		return nil
	}
	externals["sort.Slice"] = sortSlice
	externals["sort.SliceStable"] = sortSlice
	externals["sort.Strings"] = func(fr *frame, a []value) value {
		xs := a[0].([]value)
		for p := 1; p < len(xs); p++ {
			for q := p; q > 0; q-- {
				if !fr.i.ps.decideV(strLess(xs[q], xs[q-1], false)) {
					break
				}
				xs[q], xs[q-1] = xs[q-1], xs[q]
			}
		}
		return nil
	}
	// sort.Stable / sort.Sort with a sort.Interface: insertion sort through the methods.
	sortIface := func(fr *frame, a []value) value {
		ifc := a[0].(iface)
		mLen := findMethod(fr.i, ifc.t, "Len")
		mLess := findMethod(fr.i, ifc.t, "Less")
		mSwap := findMethod(fr.i, ifc.t, "Swap")
		n := int(asInt64(call(fr.i, fr, 0, mLen, []value{ifc.v})))
		for p := 1; p < n; p++ {
			for q := p; q > 0; q-- {
				r := call(fr.i, fr, 0, mLess, []value{ifc.v, q, q - 1})
				if !fr.i.ps.decideV(r) {
					break
				}
				call(fr.i, fr, 0, mSwap, []value{ifc.v, q, q - 1})
			}
		}
		return nil
	}
	externals["sort.Stable"] = sortIface
	externals["sort.Sort"] = sortIface
}

// ---- iter.Pull (P-pull): eager materialisation ----

func extIterPull(fr *frame, fn *ssa.Function, args []value) value {
	seq := args[0]
	var items []value
	yield := nativeFn(func(a []value) value { items = append(items, a[0]); return true })
	call(fr.i, fr, 0, seq, []value{yield})
	idx := 0
	elemT := fn.Signature.Results().At(0).Type().Underlying().(*types.Signature).Results().At(0).Type()
	next := nativeFn(func(a []value) value {
		if idx < len(items) {
			v := items[idx]
			idx++
			return tuple{v, true}
		}
		return tuple{zero(elemT), false}
	})
	stop := nativeFn(func(a []value) value { idx = len(items); return nil })
	return tuple{next, stop}
}

// ---- math / strconv ----

func needConcreteF(v value, what string) float64 {
	f, ok := v.(float64)
	if !ok {
		panic(unsupportedAbort{what + " of symbolic float"})
	}
	return f
}

func init() {
	externals["math.Float64bits"] = func(fr *frame, a []value) value {
		if s, ok := a[0].(sym); ok {
			const pre = "((_ to_fp 11 53) "
			if strings.HasPrefix(s.t, pre) && !strings.ContainsAny(s.t[len(pre):len(s.t)-1], " ()") {
				return sym{kU64, s.t[len(pre) : len(s.t)-1]} // bits of to_fp(bits)
			}
			// exact for non-NaN values; NaN payloads are not distinguished by SMT fp.to_ieee_bv-less encodings
			b := fr.i.ps.fresh("fb", kU64)
			fr.i.ps.assertTerm("(= ((_ to_fp 11 53) " + b.t + ") " + s.t + ")")
			fr.i.ps.floatOf[b.t] = s.t
			return b
		}
		return math.Float64bits(a[0].(float64))
	}
	externals["math.Float64frombits"] = func(fr *frame, a []value) value {
		if s, ok := a[0].(sym); ok {
			if f, ok := fr.i.ps.floatOf[s.t]; ok {
				return sym{kF64, f}
			}
			return sym{kF64, "((_ to_fp 11 53) " + s.t + ")"}
		}
		return math.Float64frombits(a[0].(uint64))
	}
	externals["math.Sqrt"] = func(fr *frame, a []value) value {
		if s, ok := a[0].(sym); ok {
			return sym{kF64, "(fp.sqrt RNE " + s.t + ")"}
		}
		return math.Sqrt(a[0].(float64))
	}
	externals["math.IsNaN"] = func(fr *frame, a []value) value {
		if s, ok := a[0].(sym); ok {
			return sym{kBool, "(fp.isNaN " + s.t + ")"}
		}
		return math.IsNaN(a[0].(float64))
	}
	externals["math.IsInf"] = func(fr *frame, a []value) value {
		f := needConcreteF(a[0], "math.IsInf")
		return math.IsInf(f, int(asInt64(a[1])))
	}
	externals["strconv.FormatFloat"] = func(fr *frame, a []value) value {
		f := needConcreteF(a[0], "strconv.FormatFloat")
		return strconv.FormatFloat(f, a[1].(byte), int(asInt64(a[2])), int(asInt64(a[3])))
	}
	externals["strconv.ParseFloat"] = func(fr *frame, a []value) value {
		s, ok := a[0].(string)
		if !ok {
			panic(unsupportedAbort{"ParseFloat of symbolic string"})
		}
		f, err := strconv.ParseFloat(s, int(asInt64(a[1])))
		if err != nil {
			return tuple{f, fr.i.errorValue(err.Error())}
		}
		return tuple{f, iface{}}
	}
	delete(externals, "strconv.Atoi")
	delete(externals, "strconv.Itoa")
	delete(externals, "sort.Ints")
	delete(externals, "sort.Float64s")
	delete(externals, "strings.Count")
	delete(externals, "strings.EqualFold")
	delete(externals, "unicode/utf8.DecodeRuneInString")
	externals["unicode/utf8.DecodeRuneInString"] = func(fr *frame, a []value) value {
		r, n := fr.i.decodeRune(strBytes(a[0]))
		return tuple{r, n}
	}
	externals["unicode/utf8.DecodeRune"] = func(fr *frame, a []value) value {
		r, n := fr.i.decodeRune(a[0].([]value))
		return tuple{r, n}
	}
	externals["unicode/utf8.ValidString"] = func(fr *frame, a []value) value {
		bs := strBytes(a[0])
		for p := 0; p < len(bs); {
			r, n := fr.i.decodeRune(bs[p:])
			if n == 1 {
				if rc, ok := r.(rune); ok && rc == 0xFFFD {
					return false
				}
			}
			p += n
		}
		return true
	}
}

// ---- time (T-time): Time = structure{wall uint64, ext int64, loc *Location};
// engine encoding: wall==1 marks "ext holds Unix nanoseconds"; the zero Time is {0,0,nil}.

func (i *interpreter) mkTime(nanos value) value {
	return structure{uint64(1), nanos, (*value)(nil)}
}

func timeNanos(v value) value {
	s := v.(structure)
	if w, ok := s[0].(uint64); ok && w == 0 {
		// zero Time: year 1; not representable as int64 nanoseconds
		panic(unsupportedAbort{"UnixNano of zero time.Time"})
	}
	return s[1]
}

func toGoTime(v value) time.Time {
	s := v.(structure)
	if w, ok := s[0].(uint64); ok && w == 0 {
		return time.Time{}
	}
	n, ok := s[1].(int64)
	if !ok {
		panic(unsupportedAbort{"calendar function of symbolic time"})
	}
	return time.Unix(0, n).UTC()
}

func (i *interpreter) fromGoTime(t time.Time) value {
	if t.IsZero() {
		return structure{uint64(0), int64(0), (*value)(nil)}
	}
	return i.mkTime(t.UnixNano())
}

func init() {
	externals["time.Now"] = func(fr *frame, a []value) value {
		return fr.i.mkTime(fr.i.ps.declare("vx_time_now", kI64))
	}
	externals["time.Since"] = func(fr *frame, a []value) value { return int64(0) }
	externals["time.Unix"] = func(fr *frame, a []value) value {
		sec, nsec := a[0], a[1]
		if s, ok := sec.(int64); ok && s == 0 {
			return fr.i.mkTime(nsec)
		}
		if bothInt64(sec, nsec) {
			return fr.i.mkTime(time.Unix(sec.(int64), nsec.(int64)).UnixNano())
		}
		panic(unsupportedAbort{"time.Unix with symbolic seconds"})
	}
	externals["(time.Time).UnixNano"] = func(fr *frame, a []value) value { return timeNanos(a[0]) }
	externals["(time.Time).UTC"] = func(fr *frame, a []value) value { return a[0] }
	externals["(time.Time).In"] = func(fr *frame, a []value) value {
		// the Time model is UTC only; LoadLocation yields the nil location for "UTC"
		if p, ok := a[1].(*value); ok && p == nil {
			return a[0]
		}
		panic(unsupportedAbort{"(time.Time).In with a non-UTC location"})
	}
	externals["(time.Time).IsZero"] = func(fr *frame, a []value) value {
		s := a[0].(structure)
		w, ok := s[0].(uint64)
		return ok && w == 0
	}
	externals["(time.Time).Add"] = func(fr *frame, a []value) value {
		n := timeNanos(a[0])
		return fr.i.mkTime(binop(fr.i, tokADD, nil, n, a[1]))
	}
	externals["(time.Time).Sub"] = func(fr *frame, a []value) value {
		return binop(fr.i, tokSUB, nil, timeNanos(a[0]), timeNanos(a[1]))
	}
	cmpT := func(op int) externalFn {
		return func(fr *frame, a []value) value {
			x, y := timeNanos(a[0]), timeNanos(a[1])
			switch op {
			case 0:
				return binop(fr.i, tokLSS, nil, x, y)
			case 1:
				return binop(fr.i, tokLSS, nil, y, x)
			}
			return binop(fr.i, tokEQL, types.Typ[types.Int64], x, y)
		}
	}
	externals["(time.Time).Before"] = cmpT(0)
	externals["(time.Time).After"] = cmpT(1)
	externals["(time.Time).Equal"] = cmpT(2)
	externals["(time.Time).Format"] = func(fr *frame, a []value) value {
		return toGoTime(a[0]).Format(strArg(a[1]))
	}
	calendar := func(f func(t time.Time) value) externalFn {
		return func(fr *frame, a []value) value { return f(toGoTime(a[0])) }
	}
	externals["(time.Time).Date"] = func(fr *frame, a []value) value {
		t := toGoTime(a[0])
		y, m, d := t.Date()
		return tuple{y, int(m), d}
	}
	externals["(time.Time).Clock"] = func(fr *frame, a []value) value {
		t := toGoTime(a[0])
		h, m, s := t.Clock()
		return tuple{h, m, s}
	}
	externals["(time.Time).Nanosecond"] = calendar(func(t time.Time) value { return t.Nanosecond() })
	externals["(time.Time).Location"] = func(fr *frame, a []value) value { return (*value)(nil) }
	externals["(time.Time).Year"] = calendar(func(t time.Time) value { return t.Year() })
	externals["(time.Time).Month"] = calendar(func(t time.Time) value { return int(t.Month()) })
	externals["(time.Time).Day"] = calendar(func(t time.Time) value { return t.Day() })
	externals["(time.Time).Hour"] = calendar(func(t time.Time) value { return t.Hour() })
	externals["(time.Time).Minute"] = calendar(func(t time.Time) value { return t.Minute() })
	externals["(time.Time).Second"] = calendar(func(t time.Time) value { return t.Second() })
	externals["(time.Time).Weekday"] = calendar(func(t time.Time) value { return int(t.Weekday()) })
	externals["(time.Time).Truncate"] = func(fr *frame, a []value) value {
		d, ok := a[1].(int64)
		if !ok {
			panic(unsupportedAbort{"Truncate with symbolic duration"})
		}
		return fr.i.fromGoTime(toGoTime(a[0]).Truncate(time.Duration(d)))
	}
	externals["(time.Time).AddDate"] = func(fr *frame, a []value) value {
		return fr.i.fromGoTime(toGoTime(a[0]).AddDate(int(asInt64(a[1])), int(asInt64(a[2])), int(asInt64(a[3]))))
	}
	externals["time.Date"] = func(fr *frame, a []value) value {
		for _, x := range a[:7] {
			if isSym(x) {
				panic(unsupportedAbort{"time.Date with symbolic field"})
			}
		}
		t := time.Date(int(asInt64(a[0])), time.Month(asInt64(a[1])), int(asInt64(a[2])), int(asInt64(a[3])), int(asInt64(a[4])), int(asInt64(a[5])), int(asInt64(a[6])), time.UTC)
		return fr.i.fromGoTime(t)
	}
	externals["time.LoadLocation"] = func(fr *frame, a []value) value {
		name := strArg(a[0])
		if name == "UTC" || name == "" {
			return tuple{(*value)(nil), iface{}}
		}
		panic(unsupportedAbort{"time.LoadLocation " + name})
	}
	externals["(time.Duration).String"] = func(fr *frame, a []value) value {
		d, ok := a[0].(int64)
		if !ok {
			// symbolic duration: exact for 0 ("0s") and 1..999 ns ("<n>ns"); larger or
			// negative values need the unit arithmetic of time.Duration.format
			x, isSym := a[0].(sym)
			if !isSym {
				panic(unsupportedAbort{"Duration.String of non-integer"})
			}
			if fr.i.ps.decide(sym{kBool, "(= " + x.t + " #x0000000000000000)"}) {
				return "0s"
			}
			if fr.i.ps.decide(sym{kBool, "(bvult " + x.t + " #x00000000000003e8)"}) {
				return strConcat(fr.i.symFormatInt(sym{kU64, x.t}), "ns")
			}
			panic(unsupportedAbort{"Duration.String of symbolic duration outside 0..999ns"})
		}
		return time.Duration(d).String()
	}
	parse := func(fr *frame, layout, s value) value {
		str, ok := s.(string)
		if !ok {
			panic(unsupportedAbort{"time.Parse of symbolic string"})
		}
		t, err := time.Parse(strArg(layout), str)
		if err != nil {
			return tuple{fr.i.fromGoTime(time.Time{}), fr.i.errorValue(err.Error())}
		}
		return tuple{fr.i.fromGoTime(t), iface{}}
	}
	externals["time.Parse"] = func(fr *frame, a []value) value { return parse(fr, a[0], a[1]) }
	externals["time.ParseInLocation"] = func(fr *frame, a []value) value { return parse(fr, a[0], a[1]) }
	externals["time.ParseDuration"] = func(fr *frame, a []value) value {
		str, ok := a[0].(string)
		if !ok {
			panic(unsupportedAbort{"time.ParseDuration of symbolic string"})
		}
		d, err := time.ParseDuration(str)
		if err != nil {
			return tuple{int64(0), fr.i.errorValue(err.Error())}
		}
		return tuple{int64(d), iface{}}
	}
}

func bothInt64(a, b value) bool {
	_, ok1 := a.(int64)
	_, ok2 := b.(int64)
	return ok1 && ok2
}

var _ = sort.Ints

// symFormatInt renders a symbolic integer in decimal: the sign and the number of
// digits are decided (case split), each digit is a term.
func (i *interpreter) symFormatInt(x sym) value {
	signed := x.k.signed()
	v := x
	if x.k.width() != 64 {
		if signed {
			v = i.symConv(kI64, x).(sym)
		} else {
			v = i.symConv(kU64, x).(sym)
		}
	}
	u := v.t
	neg := false
	if signed {
		if i.ps.decide(sym{kBool, "(bvslt " + u + " #x0000000000000000)"}) {
			neg = true
			u = i.ps.name(sym{kU64, "(bvneg " + u + ")"}).(sym).t
		}
	}
	n := 20
	p := uint64(10)
	for d := 1; d <= 19; d++ {
		if i.ps.decide(sym{kBool, "(bvult " + u + " " + bvLit(p, 64) + ")"}) {
			n = d
			break
		}
		p *= 10
	}
	digits := make([]value, 0, n+1)
	if neg {
		digits = append(digits, uint8('-'))
	}
	pow := make([]uint64, n)
	pp := uint64(1)
	for k := 0; k < n; k++ {
		pow[k] = pp
		pp *= 10
	}
	for k := n - 1; k >= 0; k-- {
		q := u
		if pow[k] != 1 {
			q = "(bvudiv " + u + " " + bvLit(pow[k], 64) + ")"
		}
		t := "(bvadd ((_ extract 7 0) (bvurem " + q + " #x000000000000000a)) #x30)"
		digits = append(digits, i.ps.name(sym{kU8, t}))
	}
	return mkStr(digits)
}

func init() {
	itoa := func(fr *frame, a []value) value {
		if s, ok := a[0].(sym); ok {
			return fr.i.symFormatInt(s)
		}
		return strconv.FormatInt(asInt64(a[0]), 10)
	}
	externals["strconv.Itoa"] = itoa
	externals["strconv.FormatInt"] = func(fr *frame, a []value) value {
		if b := asInt64(a[1]); b != 10 {
			if _, ok := a[0].(sym); ok {
				panic(unsupportedAbort{"FormatInt of symbolic value in base != 10"})
			}
			return strconv.FormatInt(asInt64(a[0]), int(b))
		}
		return itoa(fr, a)
	}
}

// fmt.Sscanf for the simple verbs used by mangle (%s %d), concrete input only.
func init() {
	externals["fmt.Sscanf"] = func(fr *frame, a []value) value {
		in, ok := a[0].(string)
		if !ok {
			panic(unsupportedAbort{"fmt.Sscanf on symbolic input"})
		}
		format := strArg(a[1])
		ptrs := a[2].([]value)
		verbs := strings.Fields(format)
		toks := strings.Fields(in)
		n := 0
		for k, vb := range verbs {
			if k >= len(toks) || k >= len(ptrs) {
				return tuple{n, fr.i.errorValue("unexpected EOF")}
			}
			p := ptrs[k].(iface).v.(*value)
			switch vb {
			case "%s":
				*p = toks[k]
			case "%d":
				v, err := strconv.ParseInt(toks[k], 10, 64)
				if err != nil {
					return tuple{n, fr.i.errorValue("expected integer")}
				}
				*p = int(v)
			default:
				panic(unsupportedAbort{"fmt.Sscanf verb " + vb})
			}
			n++
		}
		return tuple{n, iface{}}
	}
}

func init() {
	externals["strconv.Atoi"] = func(fr *frame, a []value) value {
		str, ok := a[0].(string)
		if !ok {
			panic(unsupportedAbort{"strconv.Atoi of symbolic string"})
		}
		n, err := strconv.Atoi(str)
		if err != nil {
			return tuple{0, fr.i.errorValue(err.Error())}
		}
		return tuple{n, iface{}}
	}
}

// net/url escaping: native on concrete strings (the package's lookup table is built by an
// init function the engine does not run).
func init() {
	externals["net/url.QueryUnescape"] = func(fr *frame, a []value) value {
		str, ok := a[0].(string)
		if !ok {
			// symbolic bytes: unescape/ishex/unhex use no package table, interpret the real code
			return interpretInstead{}
		}
		out, err := url.QueryUnescape(str)
		if err != nil {
			return tuple{"", fr.i.errorValue(err.Error())}
		}
		return tuple{out, iface{}}
	}
	// ishex reads a table that a package init (not run by the engine) fills: model it directly
	externals["net/url.ishex"] = func(fr *frame, a []value) value {
		if c, ok := a[0].(uint8); ok {
			return ('0' <= c && c <= '9') || ('a' <= c && c <= 'f') || ('A' <= c && c <= 'F')
		}
		t := a[0].(sym).t
		in := func(lo, hi byte) string {
			return "(and (bvuge " + t + " " + u8lit(lo) + ") (bvule " + t + " " + u8lit(hi) + "))"
		}
		return sym{kBool, "(or " + in('0', '9') + " " + in('a', 'f') + " " + in('A', 'F') + ")"}
	}
	externals["net/url.QueryEscape"] = func(fr *frame, a []value) value {
		str, ok := a[0].(string)
		if !ok {
			panic(unsupportedAbort{"url.QueryEscape of symbolic string"})
		}
		return url.QueryEscape(str)
	}
}
