#!/bin/bash
# usage: run_seed.sh <seed-id> <property> [tier]
# Applies the seeded change to a throw-away worktree of /repo (under /tmp, removed
# at the end), runs the check against that tree (VX_REPO) with evidence and
# replays redirected to a scratch directory (VX_OUT), and reports the outcome.
# /repo itself and /verif/evidence are not touched.
S=$1; P=$2; T=${3:-quick}
WT=/tmp/seedwt-$S-$P; OUT=/tmp/seedout-$S-$P
rm -rf $OUT; mkdir -p $OUT
git -C /repo worktree add -q --detach $WT HEAD || exit 2
trap "git -C /repo worktree remove --force $WT; rm -rf $OUT" EXIT
git -C $WT apply /verif/seeded/$S/patch.diff || { echo "PATCH-DOES-NOT-APPLY $S"; exit 2; }
VX_REPO=$WT VX_OUT=$OUT /verif/check $P $T > /tmp/seedrun_$S-$P.log 2>&1
rc=$?
nv=$(grep -c "^VIOLATION" /tmp/seedrun_$S-$P.log)
echo "$S on $P/$T: exit=$rc violations=$nv $(grep '^VIOLATION' /tmp/seedrun_$S-$P.log | head -3 | sed 's/.*replay=//' | xargs -n1 basename 2>/dev/null | tr '\n' ' ')"
