#!/bin/bash
# usage: run_seed.sh <seed-id> <property> [tier]   — applies the seeded change to /repo, runs the check, reverts.
S=$1; P=$2; T=${3:-quick}
cd /verif
git -C /repo diff --quiet || { echo "/repo has uncommitted changes"; exit 2; }
git -C /repo apply /verif/seeded/$S/patch.diff || { echo "PATCH-DOES-NOT-APPLY $S"; exit 2; }
./check $P $T > /tmp/seedrun_$S.log 2>&1
rc=$?
git -C /repo checkout -- .
nv=$(grep -c "^VIOLATION" /tmp/seedrun_$S.log)
echo "$S on $P/$T: exit=$rc violations=$nv $(grep '^VIOLATION' /tmp/seedrun_$S.log | head -2 | sed 's/.*replay=//' | xargs -n1 basename 2>/dev/null | tr '\n' ' ')"
