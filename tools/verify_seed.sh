#!/bin/bash
# usage: verify_seed.sh <seed-dir> ; verifies patch applies, suite passes with it, demo fails with / passes without.
# Uses a throw-away worktree under /tmp, removed at the end.
S=$1
export GOFLAGS=-mod=mod GOPROXY=off
WT=$(mktemp -d /tmp/vseed.XXXX)
rmdir $WT
git -C /repo worktree add -q --detach $WT HEAD || exit 2
trap "git -C /repo worktree remove --force $WT" EXIT
DEMO=$(cat $S/demo_path.txt | tr -d '\n ')
DEMOFILE=$(ls $S/*_test.go | head -1)
cd $WT
git apply $S/patch.diff || { echo "PATCH-DOES-NOT-APPLY"; exit 1; }
go build ./... || { echo "BUILD-FAILS"; exit 1; }
if go test -vet=off -count=1 ./... > /tmp/vseed_suite.log 2>&1; then echo "suite-with-change: PASS"; else echo "suite-with-change: FAIL"; grep -v "^ok\|no test files" /tmp/vseed_suite.log | head -20; fi
cp $DEMOFILE $WT/$DEMO
PKG=./$(dirname $DEMO)
if go test -vet=off -count=1 -run 'Demo' $PKG > /tmp/vseed_demo1.log 2>&1; then echo "demo-with-change: PASS (bad)"; else echo "demo-with-change: FAIL (good)"; fi
git apply -R $S/patch.diff
if go test -vet=off -count=1 -run 'Demo' $PKG > /tmp/vseed_demo2.log 2>&1; then echo "demo-without-change: PASS (good)"; else echo "demo-without-change: FAIL (bad)"; tail -20 /tmp/vseed_demo2.log; fi
