import json,os,re
D='/verif/DESIGN.md'
s=open(D).read()
# strip an existing section 0 if present
if '## 0. As built' in s:
    a=s.index('## 0. As built'); b=s.index('## 1. Technique')
    s=s[:a]+s[b:]
rows=[]
for d in sorted(os.listdir('/verif/seeded')):
    mp='/verif/seeded/%s/meta.json'%d
    if not os.path.exists(mp): continue
    m=json.load(open(mp))
    caught=[]
    for r in m.get('checks_run',[]):
        if r['exit']==1 and r['violations']>0:
            fr=r['first_replays'][0] if r['first_replays'] else ''
            fr=fr.replace('.json','')
            parts=fr.split('__')
            caught.append('%s/%s: `%s` `%s`'%(r['check'],r['tier'],parts[0],parts[1] if len(parts)>1 else ''))
    miss=[ '%s/%s'%(r['check'],r['tier']) for r in m.get('checks_run',[]) if not (r['exit']==1 and r['violations']>0)]
    title=m['title']
    title=re.sub(r'^(Seed(ed)?( change)?|C\d\d( seed(ed)?( change| regression)?)?)\s*[:\-—–]*\s*','',title,flags=re.I).strip()
    title=re.sub(r'^C\d\d\s*[:\-—–]*\s*','',title).strip()
    title=re.sub(r'^(round )?2\s*(seed)?\s*[-:]*\s*(C\d\d)?\s*[-:]*\s*','',title,flags=re.I).strip()
    title={'C01-a':'makeDeltaRules emits one delta rule per predicate instead of one per occurrence',
           'C04-a':'CheckRule: an equality with a function application on the left marks the right variable bound for every shape (moved break)',
           'C06-a':'MultiIndexedArray removeAtom "drops empty buckets" and loses a hash-equal neighbour',
           'C10-a':'tagged-union checker uses the accessor instead of its own argument-count test',
           'C13-a':'rotateRight omits updateMaxEnd(x)'}.get(d,title)
    note=m.get('strengthening','')
    rows.append('| %s | %s (`%s`) | %s | %s |'%(d,title[:110],', '.join(m['files_changed']),'<br>'.join(caught) or '—', ('not by: '+', '.join(miss)+'. ' if miss else '')+(('Strengthened: '+note) if note else m.get('note',''))))
table='| Seed | Change | Caught by (check/tier: exploration, assertion) | Notes |\n|---|---|---|---|\n'+'\n'.join(rows)
sec0=open('/verif/tools/design/asbuilt.md').read()+open('/verif/tools/design/asbuilt2.md').read().replace('SEEDTABLE',table)+open('/verif/tools/design/asbuilt3.md').read()+open('/verif/tools/design/asbuilt4.md').read().replace('THOROUGHTABLE',open('/verif/tools/design/thorough_table.md').read())
a=s.index('## 1. Technique')
# status line
s=s.replace('''Status of this document: written before any framework code exists. It fixes the
approach, the engine, and — per property — what is made symbolic, what is
asserted, against which oracle, inside which bounds, and what stays outside the
claim.''','''Status of this document: sections 1–8 and Appendix A were written before any
framework code existed and fix the approach, the engine, and — per property —
what is made symbolic, what is asserted, against which oracle, inside which
bounds, and what stays outside the claim. Section 0 was written after
construction and is kept current: it says what was actually built, where it
deviates from the plan, what the checks found, and which seeded changes they
catch.''')
s=s.replace('Contents\n\n1. What','Contents\n\n0. As built: status, deviations, false alarms, translator validation, findings, seeded changes, per-property coverage, thorough tier\n1. What')
a=s.index('## 1. Technique')
# keep the dashed separator before section 1
s=s[:a]+sec0+'\n---------------------------------------------------------------------------\n\n'+s[a:]
# SUPERSEDED notes
if 'Plan. As built: see 0.1' not in s:
  s=s.replace('## 5. Not applicable / partial — summary for MANIFEST.json\n','## 5. Not applicable / partial — summary for MANIFEST.json\n\n*(Plan. As built: see 0.1 and 0.7; C18\'s second half is now partly covered by the shared-state monitor, C09 covers clause printing by injectivity.)*\n')
if 'Plan. What the checks actually found' not in s:
  s=s.replace('to be re-found, replayed and then fixed or listed by the checks)\n','to be re-found, replayed and then fixed or listed by the checks)\n\n*(Plan. What the checks actually found, and what was done with each item, is in 0.5.)*\n',1)
# LAYOUT-ASBUILT
old=s[s.index('## 7. Layout, commands, cost'):s.index('* `setup_cmd`:')]
if 'Plan (kept for reference):' in old: old=old[:old.index('Plan (kept for reference):')+len('Plan (kept for reference):')+2]
new='''## 7. Layout, commands, cost

As built:

```
/verif/DESIGN.md  MANIFEST.json  known_findings.json  checks.json  properties.jsonl
/verif/check                      # ./check <Cxx> quick|thorough [--only <exploration>] | ./check <Cxx> --replay <path>
/verif/checks.json                # per property: level, assumptions, stubs, outside-claim list, explorations
                                  #   (harness, params, tiers, bounds text, solver, time limit, pinned validation vectors)
/verif/symx/                      # Go module, go 1.26.8, requires golang.org/x/tools v0.50.0 (module cache)
    cmd/symx (explore | check | replay)   load/ (go/packages + overlay)   cmd/foreign
    interp/  modified x/tools interp: sym.go path.go eval.go explore.go mem.go map.go stubs.go
             harnessapi.go lockmon.go sharedmon.go
/verif/rt/vxapi.go.tmpl           # nondet API, instantiated per harness package
/verif/rt/vxreplay_test.go.tmpl   # native replay test, instantiated per harness package
/verif/harness/<pkg>/zz_vx_*.go   # harnesses, injected as /repo/<pkg>/zz_vx_*.go by overlay
/verif/seeded/<id>/               # seeded changes (patch, demonstration, notes, meta.json)
/verif/tools/run_seed.sh verify_seed.sh
/verif/evidence/                  # written by every run; /verif/replays/ and /verif/bin/ are not committed
```

Measured (16 cores): quick tier 0.5–2.5 min per property, about 25 min for all
twenty in sequence (`vp check`: 13 min); load + SSA build 5–7 s per run.

Plan (kept for reference):

'''
s=s.replace(old,new)
open(D,'w').write(s)
print(len(s.splitlines()))
