import json,os,re,sys
logs={}
for fn in ['/verif/tools/design/seed_runs.log']:
    if not os.path.exists(fn): continue
    for l in open(fn):
        m=re.match(r'(\S+) on (\S+)/(\S+): exit=(\d+) violations=(\d+) (.*)',l)
        if m:
            logs.setdefault(m.group(1),[]).append({'check':m.group(2),'tier':m.group(3),'exit':int(m.group(4)),'violations':int(m.group(5)),'first_replays':m.group(6).split()})
extra=json.load(open('/verif/tools/design/seed_extra.json')) if os.path.exists('/verif/tools/design/seed_extra.json') else {}
for d in sorted(os.listdir('.')):
    if not os.path.isdir(d): continue
    notes=open(d+'/notes.md').read()
    title=notes.strip().splitlines()[0].lstrip('# ').strip()
    m=re.search(r'^#+[^\n]*(manifest|needed|needs|takes)[^\n]*\n(.*?)(?=^#+ |\Z)',notes,re.S|re.M|re.I)
    needs=m.group(2).strip() if m else ''
    files=re.findall(r'^\+\+\+ b/(\S+)',open(d+'/patch.diff').read(),re.M)
    demo=[f for f in os.listdir(d) if f.endswith('.go.txt')]
    meta={
      'seed':d,'property':d.split('-')[0],'title':title,'files_changed':files,
      'needs_to_manifest':needs[:1500],
      'demonstration':{'file':demo[0] if demo else None,'path_in_repo':open(d+'/demo_path.txt').read().strip(),
          'how':'tools/verify_seed.sh: fresh worktree of /repo HEAD under /tmp; patch applies; go build ./...; full suite (go test -vet=off -count=1 ./...) passes with the change; demonstration test fails with the change and passes after git apply -R'},
      'author':'fresh sub-agent given only the property text and its own scratch worktree',
      'confirmed_by_me':'suite-with-change PASS, demo-with-change FAIL, demo-without-change PASS',
      'checks_run':logs.get(d,[]),
      'caught_by':[r['check']+'/'+r['tier'] for r in logs.get(d,[]) if r['exit']==1 and r['violations']>0],
    }
    if d in extra: meta.update(extra[d])
    json.dump(meta,open(d+'/meta.json','w'),indent=1)
    print(d,meta['caught_by'],len(needs))
