package symbols

// C10 (analysis part): well-formedness checking of arbitrary type-expression trees never panics.

import (
	"fmt"

	"codeberg.org/TauCeti/mangle-go/ast"
)

// VxC10TypeExpr: a type constructor applied to 0..NMAX arguments drawn from a pool that mixes
// types, name constants, structs, optional fields and variables; every checker entry point must return.
func VxC10TypeExpr() {
	ctors := []ast.FunctionSym{PairType, ListType, MapType, StructType, UnionType, TupleType, TaggedUnionType, OptionType, SingletonType, FunType, RelType, Optional}
	fn := ctors[vxChoose("ctor", len(ctors))]
	n := vxChoose("nargs", vxParam("NMAX", 4)+1)
	tag, _ := ast.Name("/kind")
	va, _ := ast.Name("/va")
	pool := []ast.BaseTerm{ast.NumberBound, tag, va, NewStructType(), ast.Variable{Symbol: "X"}, NewOpt(va, ast.NumberBound), ast.Number(3)}
	args := make([]ast.BaseTerm, n)
	for i := range args {
		args[i] = pool[vxChoose(fmt.Sprintf("arg%d", i), len(pool))]
	}
	expr := ast.ApplyFn{Function: ast.FunctionSym{Symbol: fn.Symbol, Arity: fn.Arity}, Args: args}
	vxReach("built")
	err := WellformedBound(expr)
	_ = WellformedType(nil, expr)
	if err == nil {
		// accepted expressions must also be usable by the membership test and by conformance
		if h, herr := NewBoundHandle(expr); herr == nil {
			h.HasType(ast.Number(1))
			h.HasType(tag)
			f1 := va
			v := ast.Number(2)
			h.HasType(*ast.Struct(map[*ast.Constant]*ast.Constant{&tag: &f1, &f1: &v}))
		}
		SetConforms(map[ast.Variable]ast.BaseTerm{}, expr, expr)
		UpperBound(nil, []ast.BaseTerm{expr, ast.NumberBound})
		LowerBound(nil, []ast.BaseTerm{expr, ast.NumberBound})
	}
	// declarations carrying the expression as a bound go through desugaring
	decl := ast.Decl{
		DeclaredAtom: ast.NewAtom("p", ast.Variable{Symbol: "A"}),
		Bounds:       []ast.BoundDecl{{Bounds: []ast.BaseTerm{expr}}},
	}
	CheckAndDesugar(map[ast.PredicateSym]ast.Decl{decl.DeclaredAtom.Predicate: decl})
	vxAssert(true, "returned-without-panic")
}
