package symbols

// C12: type conformance is sound for membership; upper/lower bounds are bounds.

import (
	"fmt"

	"codeberg.org/TauCeti/mangle-go/ast"
)

// vxName builds a name constant "/"+n symbolic characters over {a,b,/}; ok=false if not a valid name.
func vxName(id string, n int) (ast.Constant, bool) {
	if vxParam("ENUMNAMES", 0) == 1 {
		// names enumerated from a fixed list that contains string-prefix pairs without a path boundary
		list := []string{"/a", "/ab", "/a/b", "/ab/c", "/b"}[:vxParam("NAMES", 3)]
		c, err := ast.Name(list[vxChoose(id+"_enum", len(list))])
		return c, err == nil
	}
	bs := vxBytes(id, n)
	for _, b := range bs {
		vxAssume(b == 'a' || b == 'b' || b == '/')
	}
	c, err := ast.Name("/" + string(bs))
	return c, err == nil
}

// leaf type shapes: 0 /any 1 /number 2 /string 3 /name 4 /float64 5 name-prefix type (symbolic) 6 singleton of a symbolic name
func vxLeafType(id string, shapes []int) (ast.BaseTerm, bool) {
	switch shapes[vxChoose(id+"_leaf", len(shapes))] {
	case 0:
		return ast.AnyBound, true
	case 1:
		return ast.NumberBound, true
	case 2:
		return ast.StringBound, true
	case 3:
		return ast.NameBound, true
	case 4:
		return ast.Float64Bound, true
	case 7:
		return ast.TimeBound, true
	case 8:
		return ast.DurationBound, true
	case 9:
		return ast.BytesBound, true
	case 5:
		n := 1
		if vxParam("ENUMNAMES", 0) == 0 {
			n = 1 + vxChoose(id+"_plen", vxParam("TLEN", 2))
		}
		c, ok := vxName(id+"_p", n)
		vxTag("name-prefix-type")
		return c, ok
	case 6:
		n := 1
		if vxParam("ENUMNAMES", 0) == 0 {
			n = 1 + vxChoose(id+"_slen", vxParam("TLEN", 2))
		}
		c, ok := vxName(id+"_s", n)
		return NewSingletonType(c), ok
	}
	panic("leaf")
}

var vxAllLeaves = []int{0, 1, 2, 3, 4, 5, 6, 7, 8, 9}
var vxFewLeaves = []int{0, 1, 3, 5}

// composite constructors: 0 pair 1 list 2 option 3 map 4 struct(required) 5 struct(required+optional) 6 tuple3 7 tagged union
func vxComposite(id string, ctor int) (ast.BaseTerm, bool) {
	L := func(k int) (ast.BaseTerm, bool) { return vxLeafType(fmt.Sprintf("%s_%d", id, k), vxFewLeaves) }
	f1, _ := ast.Name("/f1")
	f2, _ := ast.Name("/f2")
	switch ctor {
	case 0:
		a, ok1 := L(0)
		b, ok2 := L(1)
		return NewPairType(a, b), ok1 && ok2
	case 1:
		a, ok := L(0)
		return NewListType(a), ok
	case 2:
		a, ok := L(0)
		return NewOptionType(a), ok
	case 3:
		a, ok1 := L(0)
		b, ok2 := L(1)
		return NewMapType(a, b), ok1 && ok2
	case 4:
		a, ok := L(0)
		return NewStructType(f1, a), ok
	case 5:
		a, ok1 := L(0)
		b, ok2 := L(1)
		return NewStructType(f1, a, NewOpt(f2, b)), ok1 && ok2
	case 6:
		a, ok1 := L(0)
		b, ok2 := L(1)
		c, ok3 := L(2)
		return NewTupleType(a, b, c), ok1 && ok2 && ok3
	case 7:
		a, ok := L(0)
		tag, _ := ast.Name("/kind")
		va, _ := ast.Name("/va")
		vb, _ := ast.Name("/vb")
		return NewTaggedUnionType(tag, va, NewStructType(f1, a), vb, NewStructType()), ok
	case 8: // struct with two required fields (S side) vs one required field (T side)
		a, ok1 := L(0)
		if id == "T" {
			return NewStructType(f1, a), ok1
		}
		b, ok2 := L(1)
		return NewStructType(f1, a, f2, b), ok1 && ok2
	}
	panic("ctor")
}

// vxLeafConst: 0 number 1 one-byte string 2 name (symbolic) 3 float 1.5
func vxLeafConst(id string) (ast.Constant, bool) {
	switch vxChoose(id+"_c", 7) {
	case 4:
		return ast.Time(vxInt64(id + "_t")), true
	case 5:
		return ast.Duration(vxInt64(id + "_d")), true
	case 6:
		return ast.Bytes(vxBytes(id+"_b", 1)), true
	case 0:
		if vxParam("ENUMNAMES", 0) == 1 {
			return ast.Number(7), true
		}
		return ast.Number(vxInt64(id + "_n")), true
	case 1:
		if vxParam("ENUMNAMES", 0) == 1 {
			return ast.String("s"), true
		}
		return ast.String(vxString(id+"_str", 1)), true
	case 2:
		n := vxParam("CLEN", 3)
		if vxParam("ENUMNAMES", 0) == 0 {
			n = 1 + vxChoose(id+"_nlen", n)
		}
		return vxName(id+"_nm", n)
	case 3:
		return ast.Float64(1.5), true
	}
	panic("const")
}

// vxConstFor builds a probe constant whose outer shape fits constructor ctor (leaves arbitrary).
func vxConstFor(id string, ctor int) (ast.Constant, bool) {
	f1, _ := ast.Name("/f1")
	f2, _ := ast.Name("/f2")
	switch ctor {
	case -1:
		return vxLeafConst(id)
	case 0:
		a, ok1 := vxLeafConst(id + "_0")
		b, ok2 := vxLeafConst(id + "_1")
		return ast.Pair(&a, &b), ok1 && ok2
	case 1:
		switch vxChoose(id+"_len", 3) {
		case 0:
			return ast.ListNil, true
		case 1:
			a, ok := vxLeafConst(id + "_0")
			return ast.List([]ast.Constant{a}), ok
		}
		a, ok1 := vxLeafConst(id + "_0")
		b, ok2 := vxLeafConst(id + "_1")
		return ast.List([]ast.Constant{a, b}), ok1 && ok2
	case 2: // option: fn:Option(T) = fn:Union(fn:Singleton(/none)?..) — probe with leaf constants and /none-like names
		return vxLeafConst(id)
	case 3:
		if vxChoose(id+"_empty", 2) == 0 {
			return ast.MapNil, true
		}
		k, ok1 := vxLeafConst(id + "_k")
		v, ok2 := vxLeafConst(id + "_v")
		return *ast.Map(map[*ast.Constant]*ast.Constant{&k: &v}), ok1 && ok2
	case 4, 5, 8:
		switch vxChoose(id+"_fields", 3) {
		case 0:
			return ast.StructNil, true
		case 1:
			v, ok := vxLeafConst(id + "_v")
			return *ast.Struct(map[*ast.Constant]*ast.Constant{&f1: &v}), ok
		}
		v, ok1 := vxLeafConst(id + "_v")
		w, ok2 := vxLeafConst(id + "_w")
		return *ast.Struct(map[*ast.Constant]*ast.Constant{&f1: &v, &f2: &w}), ok1 && ok2
	case 6:
		a, ok1 := vxLeafConst(id + "_0")
		b, ok2 := vxLeafConst(id + "_1")
		c, ok3 := vxLeafConst(id + "_2")
		inner := ast.Pair(&b, &c)
		return ast.Pair(&a, &inner), ok1 && ok2 && ok3
	case 7:
		tag, _ := ast.Name("/kind")
		va, _ := ast.Name("/va")
		vb, _ := ast.Name("/vb")
		switch vxChoose(id+"_variant", 3) {
		case 0:
			v, ok := vxLeafConst(id + "_v")
			return *ast.Struct(map[*ast.Constant]*ast.Constant{&tag: &va, &f1: &v}), ok
		case 1:
			return *ast.Struct(map[*ast.Constant]*ast.Constant{&tag: &vb}), true
		}
		v, ok := vxLeafConst(id + "_v")
		return *ast.Struct(map[*ast.Constant]*ast.Constant{&tag: &v}), ok
	}
	panic("constfor")
}

func vxHas(t ast.BaseTerm, c ast.Constant) bool {
	h, err := NewSetHandle(t)
	if err != nil {
		return false
	}
	return h.HasType(c)
}

// vxParsedShape rewrites a type expression into the shape the parser gives to the
// NAME(args) syntax: a variadic constructor gets the arity of its argument list.
func vxParsedShape(t ast.BaseTerm) ast.BaseTerm {
	f, ok := t.(ast.ApplyFn)
	if !ok {
		return t
	}
	args := make([]ast.BaseTerm, len(f.Args))
	for i, a := range f.Args {
		args[i] = vxParsedShape(a)
	}
	fn := f.Function
	if fn.Arity == -1 {
		fn.Arity = len(args)
	}
	return ast.ApplyFn{Function: fn, Args: args}
}

func vxSoundness(s, t ast.BaseTerm, c ast.Constant) {
	if vxParam("PARSED", 0) == 1 {
		s, t = vxParsedShape(s), vxParsedShape(t)
	}
	if WellformedType(nil, s) != nil || WellformedType(nil, t) != nil {
		return
	}
	vxReach("wellformed-pair")
	inS, inT := vxHas(s, c), vxHas(t, c)
	vxObserve("member-of-S", inS)
	vxObserve("member-of-T", inT)
	vxObserve("S-conforms-to-T", SetConforms(nil, s, t))
	if SetConforms(nil, s, t) && inS {
		vxAssert(inT, "conformance-sound-for-membership")
	}
	u := UpperBound(nil, []ast.BaseTerm{s, t})
	if inS || inT {
		vxAssert(vxHas(u, c), "upper-bound-contains-members")
	}
	l := LowerBound(nil, []ast.BaseTerm{s, t})
	if !l.Equals(EmptyType) && WellformedType(nil, l) == nil && vxHas(l, c) {
		vxAssert(inS && inT, "lower-bound-only-common-members")
	}
}

// VxC12Leaf: S,T leaf types (base types, symbolic name-prefix types, symbolic singletons), c a leaf constant.
func VxC12Leaf() {
	leaves := vxAllLeaves[:vxParam("LEAFSET", len(vxAllLeaves))]
	s, ok1 := vxLeafType("S", leaves)
	t, ok2 := vxLeafType("T", leaves)
	c, ok3 := vxLeafConst("c")
	if !ok1 || !ok2 || !ok3 {
		return
	}
	vxSoundness(s, t, c)
}

// VxC12Composite: S,T built with the same constructor CTOR over leaf types; c fits the constructor's shape.
func VxC12Composite() {
	ctor := vxParam("CTOR", 0)
	s, ok1 := vxComposite("S", ctor)
	t, ok2 := vxComposite("T", ctor)
	c, ok3 := vxConstFor("c", ctor)
	if !ok1 || !ok2 || !ok3 {
		return
	}
	if ctor == 3 {
		vxTag("map-type")
	}
	if ctor == 7 || ctor == 8 {
		vxTag("struct-width-subtyping")
	}
	vxSoundness(s, t, c)
}

// VxC12Union: S a union of two leaf types, T a leaf type or a union.
func VxC12Union() {
	a, ok1 := vxLeafType("A", vxFewLeaves)
	b, ok2 := vxLeafType("B", vxFewLeaves)
	t, ok3 := vxLeafType("T", vxFewLeaves)
	c, ok4 := vxLeafConst("c")
	if !ok1 || !ok2 || !ok3 || !ok4 {
		return
	}
	s := NewUnionType(a, b)
	if vxChoose("side", 2) == 0 {
		vxSoundness(s, t, c)
	} else {
		vxSoundness(t, s, c)
	}
}
