package functional

// C18, second clause: evaluating a function application writes no state reachable from the
// library's package-level variables (see harness/engine/zz_vx_c18.go).

import (
	"codeberg.org/TauCeti/mangle-go/ast"
	"codeberg.org/TauCeti/mangle-go/symbols"
)

// VxC18SharedFunctions: one function application per case, arguments symbolic where the engine
// models the operation on symbols, concrete for calendar functions.
func VxC18SharedFunctions() {
	x, y := vxInt64("x"), vxInt64("y")
	name := func(s string) ast.Constant { c, _ := ast.Name(s); return c }
	tm := ast.Time([]int64{0, 1700000000123456789}[vxChoose("instant", 2)])
	type call struct {
		fn   ast.FunctionSym
		args []ast.BaseTerm
	}
	calls := []call{
		{symbols.Plus, []ast.BaseTerm{ast.Number(x), ast.Number(y)}},
		{symbols.Mult, []ast.BaseTerm{ast.Number(x), ast.Number(3)}},
		{symbols.Div, []ast.BaseTerm{ast.Number(x), ast.Number(y)}},
		{symbols.List, []ast.BaseTerm{ast.Number(x), ast.Number(y)}},
		{symbols.Pair, []ast.BaseTerm{ast.Number(x), ast.String("a")}},
		{symbols.TimeTruncCivil, []ast.BaseTerm{tm, ast.String("UTC"), name("/day")}},
		{symbols.TimeTruncCivil, []ast.BaseTerm{tm, ast.String("UTC"), name("/month")}},
		{symbols.TimeFormatCivil, []ast.BaseTerm{tm, ast.String("UTC"), name("/second")}},
		{symbols.TimeParseCivil, []ast.BaseTerm{ast.String("2024-01-15T10:30:00"), ast.String("UTC")}},
	}
	c := calls[vxChoose("call", len(calls))]
	vxSharedWatch()
	_, err := EvalApplyFn(ast.ApplyFn{Function: c.fn, Args: c.args}, ast.ConstSubstList{})
	_ = err
	// a second evaluation: state left behind by the first one would be used here
	_, _ = EvalApplyFn(ast.ApplyFn{Function: c.fn, Args: c.args}, ast.ConstSubstList{})
	vxReach("applied")
	vxAssert(vxSharedWrites() == 0, "evaluation-writes-no-library-global")
}
