package functional

// C07 harnesses: arithmetic laws, division, reducers, list/pair/map/struct accessors.

import (
	"errors"
	"fmt"

	"codeberg.org/TauCeti/mangle-go/ast"
	"codeberg.org/TauCeti/mangle-go/symbols"
)

func vxNums(prefix string, n int) ([]int64, []ast.BaseTerm) {
	xs := make([]int64, n)
	ts := make([]ast.BaseTerm, n)
	for k := 0; k < n; k++ {
		xs[k] = vxInt64(fmt.Sprintf("%s%d", prefix, k))
		ts[k] = ast.Number(xs[k])
	}
	return xs, ts
}

func vxApply(fn ast.FunctionSym, args []ast.BaseTerm) (ast.Constant, error) {
	return EvalApplyFn(ast.ApplyFn{Function: fn, Args: args}, ast.ConstSubstList{})
}

// VxC07Ring: plus/minus/mult with 1..3 arguments are two's-complement ring operations.
func VxC07Ring() {
	op := vxChoose("op", 3)
	n := 1 + vxChoose("nargs", 3)
	xs, ts := vxNums("x", n)
	var fn ast.FunctionSym
	var want int64
	switch op {
	case 0:
		fn = symbols.Plus
		for _, x := range xs {
			want += x
		}
	case 1:
		fn = symbols.Minus
		if n == 1 {
			want = -xs[0]
		} else {
			want = xs[0]
			for _, x := range xs[1:] {
				want -= x
			}
		}
	case 2:
		fn = symbols.Mult
		want = 1
		for _, x := range xs {
			want *= x
		}
	}
	got, err := vxApply(fn, ts)
	vxObserve("ring-result", got.NumValue)
	vxReach("ring")
	vxAssert(err == nil, "ring-no-error")
	vxAssert(got.Type == ast.NumberType, "ring-type")
	vxAssert(got.NumValue == want, "ring-value")
}

// VxC07Div: fn:div and fn:mod agree with Go's truncating division on the same
// operands for all int64; division by zero (in any position) is an error;
// fn:div(x) is 1/x.
func VxC07Div() {
	c := vxChoose("case", 4)
	switch c {
	case 0: // div(x,y)
		xs, ts := vxNums("x", 2)
		got, err := vxApply(symbols.Div, ts)
		vxObserve("div-result", got.NumValue)
		vxObserve("div-error", err != nil)
		vxReach("div2")
		if xs[1] == 0 {
			vxAssert(errors.Is(err, ErrDivisionByZero), "div-by-zero-error")
			return
		}
		vxAssert(err == nil, "div-no-error")
		vxAssert(got.NumValue == xs[0]/xs[1], "div-value")
	case 1: // div(x,y,z)
		xs, ts := vxNums("x", 3)
		got, err := vxApply(symbols.Div, ts)
		vxReach("div3")
		if xs[1] == 0 || xs[2] == 0 {
			vxTag("div3-zero-divisor")
			vxAssert(errors.Is(err, ErrDivisionByZero), "div-by-zero-error")
			return
		}
		vxAssert(err == nil, "div-no-error")
		vxAssert(got.NumValue == (xs[0]/xs[1])/xs[2], "div-value")
	case 2: // div(x) = 1/x
		xs, ts := vxNums("x", 1)
		got, err := vxApply(symbols.Div, ts)
		vxReach("div1")
		if xs[0] == 0 {
			vxAssert(errors.Is(err, ErrDivisionByZero), "div-by-zero-error")
			return
		}
		vxAssert(err == nil, "div-no-error")
		vxAssert(got.NumValue == 1/xs[0], "div1-is-reciprocal")
	case 3: // mod(x,y)
		xs, ts := vxNums("x", 2)
		got, err := vxApply(symbols.Mod, ts)
		vxReach("mod")
		if xs[1] == 0 {
			vxAssert(errors.Is(err, ErrDivisionByZero), "mod-by-zero-error")
			return
		}
		vxAssert(err == nil, "mod-no-error")
		vxAssert(got.NumValue == xs[0]%xs[1], "mod-value")
	}
}

// VxC07DivIdentity: x = (x div y)*y + (x mod y), |x mod y| < |y|, sign of the
// remainder follows the dividend; decided for |x|,|y| < 2^B through the real code.
func VxC07DivIdentity() {
	b := uint(vxParam("B", 9))
	xs, ts := vxNums("x", 2)
	lim := int64(1) << b
	vxAssume(xs[0] > -lim && xs[0] < lim && xs[1] > -lim && xs[1] < lim && xs[1] != 0)
	q, err1 := vxApply(symbols.Div, ts)
	r, err2 := vxApply(symbols.Mod, ts)
	vxReach("identity")
	vxAssert(err1 == nil && err2 == nil, "no-error")
	vxAssert(q.NumValue*xs[1]+r.NumValue == xs[0], "div-mod-identity")
	ar, ay := r.NumValue, xs[1]
	if ar < 0 {
		ar = -ar
	}
	if ay < 0 {
		ay = -ay
	}
	vxAssert(ar < ay, "remainder-smaller-than-divisor")
	vxAssert(r.NumValue == 0 || (r.NumValue < 0) == (xs[0] < 0), "remainder-sign")
}

var vxPerms = map[int][][]int{
	1: {{0}},
	2: {{0, 1}, {1, 0}},
	3: {{0, 1, 2}, {0, 2, 1}, {1, 0, 2}, {1, 2, 0}, {2, 0, 1}, {2, 1, 0}},
	4: {{0, 1, 2, 3}, {0, 1, 3, 2}, {0, 2, 1, 3}, {0, 2, 3, 1}, {0, 3, 1, 2}, {0, 3, 2, 1},
		{1, 0, 2, 3}, {1, 0, 3, 2}, {1, 2, 0, 3}, {1, 2, 3, 0}, {1, 3, 0, 2}, {1, 3, 2, 0},
		{2, 0, 1, 3}, {2, 0, 3, 1}, {2, 1, 0, 3}, {2, 1, 3, 0}, {2, 3, 0, 1}, {2, 3, 1, 0},
		{3, 0, 1, 2}, {3, 0, 2, 1}, {3, 1, 0, 2}, {3, 1, 2, 0}, {3, 2, 0, 1}, {3, 2, 1, 0}},
}

func vxRows(xs []int64, perm []int) []ast.ConstSubstList {
	rows := make([]ast.ConstSubstList, len(xs))
	for k, p := range perm {
		rows[k] = ast.ConstSubstList{}.Extend(ast.Variable{Symbol: "X"}, ast.Number(xs[p]))
	}
	return rows
}

// VxC07Reducers: count/sum/min/max over N integer rows equal an independent
// fold and do not depend on row order; collect_distinct is the same set.
func VxC07Reducers() {
	n := vxParam("N", 3)
	red := vxChoose("reducer", 5)
	perm := vxPerms[n][vxChoose("perm", len(vxPerms[n]))]
	xs, _ := vxNums("r", n)
	X := ast.Variable{Symbol: "X"}
	var fn ast.FunctionSym
	var want int64
	switch red {
	case 0:
		fn = symbols.Count
		want = int64(n)
	case 1:
		fn = symbols.Sum
		for _, x := range xs {
			want += x
		}
	case 2:
		fn = symbols.Min
		want = xs[0]
		for _, x := range xs[1:] {
			if x < want {
				want = x
			}
		}
	case 3:
		fn = symbols.Max
		want = xs[0]
		for _, x := range xs[1:] {
			if x > want {
				want = x
			}
		}
	case 4:
		fn = symbols.CollectDistinct
	}
	got, err := EvalReduceFn(ast.ApplyFn{Function: fn, Args: []ast.BaseTerm{X}}, vxRows(xs, perm))
	vxReach("reduce")
	vxAssert(err == nil, "reduce-no-error")
	if red < 4 {
		vxAssert(got.Type == ast.NumberType && got.NumValue == want, "reduce-value")
		return
	}
	// collect_distinct as a set: every row value is a member exactly once, nothing else
	var elems []int64
	bad := false
	got.ListValues(func(c ast.Constant) error {
		// elements are 1-tuples? fn:tuple of one element returns the element itself
		v, e := c.NumberValue()
		if e != nil {
			bad = true
			return nil
		}
		elems = append(elems, v)
		return nil
	}, func() error { return nil })
	vxAssert(!bad, "collect-elements-are-numbers")
	for _, x := range xs {
		cnt := 0
		for _, e := range elems {
			if e == x {
				cnt++
			}
		}
		vxAssert(cnt == 1, "collect-distinct-each-once")
	}
	for _, e := range elems {
		found := false
		for _, x := range xs {
			if e == x {
				found = true
			}
		}
		vxAssert(found, "collect-distinct-nothing-else")
	}
}

// VxC07CollectKinds: collect_distinct over N rows whose values are arbitrary int64 payloads
// presented as a number, a duration or a time (values of different kinds with equal payloads have
// equal hashes but are different values): the result, read as a set, is the set of distinct row
// values, whatever the row order.
func VxC07CollectKinds() {
	n := vxParam("N", 3)
	perm := vxPerms[n][vxChoose("perm", len(vxPerms[n]))]
	xs := make([]int64, n)
	kinds := make([]int, n)
	vals := make([]ast.Constant, n)
	for k := 0; k < n; k++ {
		xs[k] = vxInt64(fmt.Sprintf("r%d", k))
		kinds[k] = vxChoose(fmt.Sprintf("kind%d", k), 3)
		switch kinds[k] {
		case 0:
			vals[k] = ast.Number(xs[k])
		case 1:
			vals[k] = ast.Duration(xs[k])
		default:
			vals[k] = ast.Time(xs[k])
		}
	}
	rows := make([]ast.ConstSubstList, n)
	for k, p := range perm {
		rows[k] = ast.ConstSubstList{}.Extend(ast.Variable{Symbol: "X"}, vals[p])
	}
	got, err := EvalReduceFn(ast.ApplyFn{Function: symbols.CollectDistinct, Args: []ast.BaseTerm{ast.Variable{Symbol: "X"}}}, rows)
	vxReach("collect-kinds")
	vxAssert(err == nil, "reduce-no-error")
	type el struct {
		t ast.ConstantType
		v int64
	}
	var elems []el
	got.ListValues(func(c ast.Constant) error {
		elems = append(elems, el{c.Type, c.NumValue})
		return nil
	}, func() error { return nil })
	same := func(e el, k int) bool { return e.t == vals[k].Type && e.v == xs[k] }
	for k := range vals {
		cnt := 0
		for _, e := range elems {
			if same(e, k) {
				cnt++
			}
		}
		vxAssert(cnt == 1, "collect-distinct-each-once")
	}
	for _, e := range elems {
		found := false
		for k := range vals {
			if same(e, k) {
				found = true
			}
		}
		vxAssert(found, "collect-distinct-nothing-else")
	}
}

// VxC07Avg: the average over integer rows does not depend on the row order.
func VxC07Avg() {
	n := vxParam("N", 3)
	var perm []int
	if pi := vxParam("PERM", 0); pi > 0 {
		perm = vxPerms[n][pi]
	} else {
		perm = vxPerms[n][1+vxChoose("perm", len(vxPerms[n])-1)]
	}
	xs, _ := vxNums("r", n)
	X := ast.Variable{Symbol: "X"}
	fn := ast.ApplyFn{Function: symbols.Avg, Args: []ast.BaseTerm{X}}
	a, err1 := EvalReduceFn(fn, vxRows(xs, vxPerms[n][0]))
	b, err2 := EvalReduceFn(fn, vxRows(xs, perm))
	vxReach("avg")
	vxAssert(err1 == nil && err2 == nil, "avg-no-error")
	vxTag("avg-float-accumulation")
	af, e1 := a.Float64Value()
	bf, e2 := b.Float64Value()
	vxAssert(e1 == nil && e2 == nil, "avg-is-float")
	vxAssert(af == bf, "avg-order-independent")
}

// VxC07Lists: list constructors vs accessors (one part per exploration path family).
func VxC07Lists() {
	n := vxParam("N", 3)
	part := vxChoose("part", 4)
	xs, ts := vxNums("e", n)
	lst, err := vxApply(symbols.List, ts)
	vxAssert(err == nil, "list-no-error")
	vxReach("lists")
	switch part {
	case 0:
		l, err := vxApply(symbols.Len, []ast.BaseTerm{lst})
		vxAssert(err == nil && l.NumValue == int64(n), "len")
		// fn:list:get(list, i) for a symbolic index
		i := vxInt64("i")
		g, err := vxApply(symbols.ListGet, []ast.BaseTerm{lst, ast.Number(i)})
		if i >= 0 && i < int64(n) {
			vxAssert(err == nil, "get-in-range-no-error")
			for k := 0; k < n; k++ {
				if int64(k) == i {
					vxAssert(g.Type == ast.NumberType && g.NumValue == xs[k], "get-value")
				}
			}
		} else {
			vxAssert(err != nil, "get-out-of-range-error")
		}
	case 1:
		y := vxInt64("y")
		c, err := vxApply(symbols.Cons, []ast.BaseTerm{ast.Number(y), lst})
		vxAssert(err == nil, "cons-no-error")
		hd, tl, err := c.ConsValue()
		vxAssert(err == nil && hd.NumValue == y, "cons-head")
		var elems []int64
		tl.ListValues(func(c ast.Constant) error { elems = append(elems, c.NumValue); return nil }, func() error { return nil })
		vxAssert(len(elems) == n, "cons-tail-len")
		for k := 0; k < n && k < len(elems); k++ {
			vxAssert(elems[k] == xs[k], "cons-tail")
		}
	case 2:
		y := vxInt64("y")
		a, err := vxApply(symbols.Append, []ast.BaseTerm{lst, ast.Number(y)})
		vxAssert(err == nil, "append-no-error")
		var elems []int64
		a.ListValues(func(c ast.Constant) error { elems = append(elems, c.NumValue); return nil }, func() error { return nil })
		vxAssert(len(elems) == n+1, "append-len")
		for k := 0; k < n; k++ {
			vxAssert(elems[k] == xs[k], "append-prefix")
		}
		vxAssert(elems[n] == y, "append-last")
	case 3:
		m := vxInt64("m")
		has, err := vxApply(symbols.ListContains, []ast.BaseTerm{lst, ast.Number(m)})
		vxAssert(err == nil, "contains-no-error")
		want := false
		for _, x := range xs {
			if x == m {
				want = true
			}
		}
		vxAssert(has.Equals(ast.TrueConstant) == want, "contains-value")
		y := vxInt64("y")
		p, err := vxApply(symbols.Pair, []ast.BaseTerm{ast.Number(y), ast.Number(m)})
		vxAssert(err == nil, "pair-no-error")
		f, s, err := p.PairValue()
		vxAssert(err == nil && f.NumValue == y && s.NumValue == m, "pair-parts")
	}
}

// VxC07Maps: fn:map / fn:struct with symbolic keys and values: get returns what was
// put in (for duplicate keys: some supplied value), in any supply order.
func VxC07Maps() {
	n := vxParam("N", 2)
	isStruct := vxChoose("struct", 2) == 1
	ks, _ := vxNums("k", n)
	vs, _ := vxNums("v", n)
	var args []ast.BaseTerm
	for k := 0; k < n; k++ {
		if isStruct {
			// struct labels are names: use fixed distinct names, values symbolic
			nm, _ := ast.Name(fmt.Sprintf("/f%d", k))
			args = append(args, nm, ast.Number(vs[k]))
		} else {
			args = append(args, ast.Number(ks[k]), ast.Number(vs[k]))
		}
	}
	var m ast.Constant
	var err error
	if isStruct {
		m, err = vxApply(symbols.Struct, args)
	} else {
		m, err = vxApply(symbols.Map, args)
	}
	vxAssert(err == nil, "construct-no-error")
	vxReach("maps")
	for k := 0; k < n; k++ {
		var g ast.Constant
		if isStruct {
			nm, _ := ast.Name(fmt.Sprintf("/f%d", k))
			g, err = vxApply(symbols.StructGet, []ast.BaseTerm{m, nm})
			vxAssert(err == nil && g.NumValue == vs[k], "struct-get")
			continue
		}
		g, err = vxApply(symbols.MapGet, []ast.BaseTerm{m, ast.Number(ks[k])})
		vxAssert(err == nil, "map-get-no-error")
		okv := false
		for j := 0; j < n; j++ {
			if ks[j] == ks[k] && g.NumValue == vs[j] {
				okv = true
			}
		}
		vxAssert(okv, "map-get-returns-a-supplied-value")
	}
	if !isStruct {
		q := vxInt64("q")
		_, err = vxApply(symbols.MapGet, []ast.BaseTerm{m, ast.Number(q)})
		present := false
		for _, k := range ks {
			if k == q {
				present = true
			}
		}
		vxAssert((err == nil) == present, "map-get-absent-key-error")
	}
}
