package engine

// C18, second clause (independence of evaluations on separate stores), reduced to what a
// single-goroutine symbolic execution can decide: two evaluations on separate stores can only
// interfere through state that outlives an evaluation, i.e. memory reachable from the library's
// package-level variables. On every path of analysis + evaluation of a program of the family,
// over symbolic base facts, no such memory is written (plain stores, map updates, atomics).

// VxC18SharedState: TPL selects a C01 template or the generated family.
func VxC18SharedState() {
	t := vxTemplateFor(vxParam("TPL", 0))
	k := vxParam("K", 2)
	store := vxNewStore(vxParam("STORE", 0))
	vxFillFacts(t, k, store, nil)
	vxSharedWatch()
	pi, err := vxAnalyze(t)
	if err == nil {
		err = EvalProgram(pi, store)
	}
	vxReach("evaluated")
	_ = err
	vxAssert(vxSharedWrites() == 0, "evaluation-writes-no-library-global")
}
