package engine

// C17: a created-fact limit turns divergence into an error, never a silent partial result.

import (
	"codeberg.org/TauCeti/mangle-go/ast"
	"codeberg.org/TauCeti/mangle-go/factstore"
	"codeberg.org/TauCeti/mangle-go/symbols"
)

type vxLimitTpl struct {
	t        vxTemplate
	diverges bool
	seed     func(store factstore.FactStore, ref *vxRef) // extra concrete/symbolic seed facts
}

func vxLimitTemplates() []vxLimitTpl {
	eq := func(v string, r ast.BaseTerm) ast.Eq { return ast.Eq{Left: ast.Variable{Symbol: v}, Right: r} }
	return []vxLimitTpl{
		{ // 0: arithmetic generator
			t: vxTemplate{name: "count-up", rules: []ast.Clause{
				vxRule(vxA("p", "X"), vxA("s", "X")),
				vxRule(vxA("p", "Y"), vxA("p", "X"), eq("Y", vxFn(symbols.Plus, "X", 1))),
			}, edb: []ast.PredicateSym{vxP("s", 1)}, idb: []ast.PredicateSym{vxP("p", 1)}},
			diverges: true,
		},
		{ // 1: list generator
			t: vxTemplate{name: "grow-list", rules: []ast.Clause{
				vxRule(vxA("q", "L"), vxA("q0", "L")),
				vxRule(vxA("q", "M"), vxA("q", "L"), eq("M", vxFn(symbols.Cons, 1, "L"))),
			}, edb: []ast.PredicateSym{vxP("q0", 1)}, idb: []ast.PredicateSym{vxP("q", 1)}},
			diverges: true,
			seed: func(store factstore.FactStore, ref *vxRef) {
				a := ast.Atom{Predicate: vxP("q0", 1), Args: []ast.BaseTerm{ast.ListNil}}
				store.Add(a)
				ref.addAtom(a)
			},
		},
		{ // 2: diverging rule in a later stratum
			t: vxTemplate{name: "late-stratum-generator", rules: []ast.Clause{
				vxRule(vxA("a", "X"), vxA("s", "X")),
				vxRule(vxA("b", "X"), vxA("s", "X"), vxNot(vxA("c", "X"))),
				vxRule(vxA("c", "X"), vxA("a", "X"), vxA(":lt", "X", 0)),
				vxRule(vxA("b", "Y"), vxA("b", "X"), eq("Y", vxFn(symbols.Plus, "X", 2))),
			}, edb: []ast.PredicateSym{vxP("s", 1)}, idb: []ast.PredicateSym{vxP("a", 1), vxP("b", 1), vxP("c", 1)}},
			diverges: false, // diverges iff some s(x) has x >= 0: decided per path through the reference evaluator
		},
		{ // 3: cross product: the first round may already exceed the limit
			t: vxTemplate{name: "cross-product", rules: []ast.Clause{
				vxRule(vxA("pp", "X", "Y"), vxA("s", "X"), vxA("s", "Y")),
			}, edb: []ast.PredicateSym{vxP("s", 1)}, idb: []ast.PredicateSym{vxP("pp", 2)}},
		},
		{ // 4: transitive closure: converges, model size depends on the data
			t: vxTemplates()[0],
		},
		{ // 5: same-round join
			t: vxTemplates()[2],
		},
		{ // 6: an intermediate join larger than its filtered result
			t: vxTemplate{name: "join-then-filter", rules: []ast.Clause{
				vxRule(vxA("jq", "X", "Y"), vxA("ja", "X"), vxA("jb", "Y"), vxA("jc", "Y")),
			}, edb: []ast.PredicateSym{vxP("ja", 1), vxP("jb", 1), vxP("jc", 1)}, idb: []ast.PredicateSym{vxP("jq", 2)}},
		},
		{ // 8 is below; 7: an earlier stratum may use up exactly the budget before a product stratum starts
			t: vxTemplate{name: "copy-then-product", rules: []ast.Clause{
				vxRule(vxA("a", "X"), vxA("s", "X")),
				vxRule(vxA("pp", "X", "Y"), vxA("a", "X"), vxA("a", "Y")),
			}, edb: []ast.PredicateSym{vxP("s", 1)}, idb: []ast.PredicateSym{vxP("a", 1), vxP("pp", 2)}},
		},
		{ // 8: arithmetic generator over a lattice-valued relation (fundep + merge predicate): every
			// derived fact has a fresh key, so the store grows by one fact per round through the merge
			// branch; the horizon makes the model finite but larger than any limit explored
			t: vxTemplate{name: "count-up-merge-predicate", rules: []ast.Clause{
				vxRule(vxA("dist", "N", "D"), vxA("s2", "N", "D")),
				vxRule(vxA("dist", "M", "E"), vxA("dist", "N", "D"), vxA("horizon", "H"), vxA(":lt", "N", "H"),
					eq("M", vxFn(symbols.Plus, "N", 1)), eq("E", vxFn(symbols.Plus, "D", 2))),
				vxRule(vxA("smaller", "D1", "D2", "D"), vxA(":lt", "D1", "D2"), eq("D", ast.Variable{Symbol: "D1"})),
				vxRule(vxA("smaller", "D1", "D2", "D"), vxA(":le", "D2", "D1"), eq("D", ast.Variable{Symbol: "D2"})),
			}, edb: []ast.PredicateSym{vxP("s2", 2), vxP("horizon", 1)}, idb: []ast.PredicateSym{vxP("dist", 2)},
				decls: vxMergeDecls()},
			diverges: true, // within the reference's round bound: the model has more than 30 facts
			seed: func(store factstore.FactStore, ref *vxRef) {
				n, d := vxInt64("n0"), vxInt64("d0")
				vxAssume(n >= 0 && n < 3)
				for _, a := range []ast.Atom{vxA("s2", ast.Number(n), ast.Number(d)), vxA("horizon", 40)} {
					store.Add(a)
					ref.addAtom(a)
				}
			},
		},
	}
}

// vxMergeDecls: Decl dist(Node, D) descr [fundep([Node],[D]), merge([D], "smaller")] and
// Decl smaller(D1, D2, D) descr [mode("+","+","-"), deferred()].
func vxMergeDecls() []ast.Decl {
	v := func(s string) ast.Variable { return ast.Variable{Symbol: s} }
	list := func(vs ...ast.BaseTerm) ast.ApplyFn {
		return ast.ApplyFn{Function: ast.FunctionSym{Symbol: "fn:list", Arity: -1}, Args: vs}
	}
	dist, err := ast.NewDecl(ast.NewAtom("dist", v("Node"), v("D")), []ast.Atom{
		ast.NewAtom(ast.DescrFunDep, list(v("Node")), list(v("D"))),
		ast.NewAtom(ast.DescrMergePredicate, list(v("D")), ast.String("smaller")),
	}, nil, nil)
	if err != nil {
		panic(err)
	}
	smaller, err := ast.NewDecl(ast.NewAtom("smaller", v("D1"), v("D2"), v("D")), []ast.Atom{
		ast.NewAtom(ast.DescrMode, ast.String("+"), ast.String("+"), ast.String("-")),
		ast.NewAtom(ast.DescrDeferredPredicate),
	}, nil, nil)
	if err != nil {
		panic(err)
	}
	return []ast.Decl{dist, smaller}
}

// VxC17Limit: evaluation under WithCreatedFactLimit(L), 1 <= L <= LMAX symbolic.
func VxC17Limit() {
	lt := vxLimitTemplates()[vxParam("TPL", 0)]
	k := vxParam("K", 2)
	lmax := vxParam("LMAX", 4)
	l := vxInt("limit")
	vxAssume(l >= 1 && l <= lmax)
	base := factstore.NewSimpleInMemoryStore()
	store := &base
	ref := vxNewRef()
	if lt.seed != nil {
		lt.seed(store, ref)
	} else {
		vxFillFacts(lt.t, k, store, ref)
	}
	initial := store.EstimateFactCount()
	pi, err := vxAnalyze(lt.t)
	vxAssert(err == nil, "analysis-accepts-template")
	err = EvalProgram(pi, store, WithCreatedFactLimit(l))
	vxReach("returned")
	vxObserve("limit-error", err != nil)
	vxObserve("facts-after-eval", store.EstimateFactCount())
	// reference: bounded number of rounds; "not converged" means the least model is larger than we can enumerate
	_, conv := ref.vxRefEval(lt.t.rules, 2*lmax+6)
	if lt.diverges {
		vxAssert(!conv, "reference-diverges")
	}
	if !conv {
		vxAssert(err != nil, "divergence-reported-as-error")
	}
	if err == nil {
		// a successful return is the complete model
		preds := append(append([]ast.PredicateSym{}, lt.t.edb...), lt.t.idb...)
		vxAssert(conv, "success-implies-finite-model")
		vxCompare(store, ref, preds, "complete-on-success")
	}
	// bounded work: facts created are bounded by a function of the limit and the program size
	nrules := len(lt.t.rules)
	vxAssert(store.EstimateFactCount() <= initial+(nrules+1)*l+1, "created-facts-bounded")
}
