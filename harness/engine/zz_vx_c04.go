package engine

// C04: programs accepted by analysis are safe to evaluate, and what is accepted is
// evaluated as written (no literal silently dropped).

import (
	"fmt"

	"codeberg.org/TauCeti/mangle-go/analysis"
	"codeberg.org/TauCeti/mangle-go/ast"
	"codeberg.org/TauCeti/mangle-go/factstore"
	"codeberg.org/TauCeti/mangle-go/parse"
	"codeberg.org/TauCeti/mangle-go/symbols"
)

var vxNames = []string{"X", "Y", "Z", "_"}

// vxSlot picks a variable name by case index; wild says whether "_" is allowed in this slot.
func vxSlot(i int, wild bool) string {
	n := 3
	if wild {
		n = 4
	}
	return vxNames[vxChoose(fmt.Sprintf("v%d", i), n)]
}

func vxVar(name string) ast.Variable { return ast.Variable{Symbol: name} }

func vxTermVars(t ast.BaseTerm, out map[string]bool) {
	switch x := t.(type) {
	case ast.Variable:
		if x.Symbol != "_" {
			out[x.Symbol] = true
		}
	case ast.ApplyFn:
		for _, a := range x.Args {
			vxTermVars(a, out)
		}
	}
}

func vxAllIn(t ast.BaseTerm, bound map[string]bool) bool {
	vs := map[string]bool{}
	vxTermVars(t, vs)
	for v := range vs {
		if !bound[v] {
			return false
		}
	}
	return true
}

// vxStaticSafe is the safety condition of C04, transcribed from the property text.
func vxStaticSafe(c ast.Clause) bool {
	bound := map[string]bool{}
	for _, t := range c.Premises {
		if a, ok := t.(ast.Atom); ok && !a.Predicate.IsBuiltin() {
			for _, arg := range a.Args {
				vxTermVars(arg, bound)
			}
		}
	}
	for changed := true; changed; {
		changed = false
		for _, t := range c.Premises {
			eq, ok := t.(ast.Eq)
			if !ok {
				continue
			}
			if v, isVar := eq.Left.(ast.Variable); isVar && v.Symbol != "_" && !bound[v.Symbol] && vxAllIn(eq.Right, bound) {
				bound[v.Symbol] = true
				changed = true
			}
			if v, isVar := eq.Right.(ast.Variable); isVar && v.Symbol != "_" && !bound[v.Symbol] && vxAllIn(eq.Left, bound) {
				bound[v.Symbol] = true
				changed = true
			}
		}
	}
	for _, t := range c.Premises {
		switch p := t.(type) {
		case ast.NegAtom:
			for _, arg := range p.Atom.Args {
				if !vxAllIn(arg, bound) {
					return false
				}
			}
		case ast.Ineq:
			if !vxAllIn(p.Left, bound) || !vxAllIn(p.Right, bound) {
				return false
			}
		case ast.Eq:
			// an equality must be evaluable: at most one side is an unbound plain variable
			l, r := vxAllIn(p.Left, bound), vxAllIn(p.Right, bound)
			if !l || !r {
				return false
			}
		case ast.Atom:
			if p.Predicate.IsBuiltin() {
				for _, arg := range p.Args {
					if !vxAllIn(arg, bound) {
						return false
					}
				}
			}
		}
	}
	if c.Transform != nil {
		if c.Transform.IsLetTransform() {
			for _, st := range c.Transform.Statements {
				if !vxAllIn(st.Fn, bound) {
					return false
				}
				if st.Var.Symbol == "_" || bound[st.Var.Symbol] {
					return false // a let must define a new variable
				}
				bound[st.Var.Symbol] = true
			}
		} else {
			stmts := c.Transform.Statements
			keys := map[string]bool{}
			for _, k := range stmts[0].Fn.Args {
				v, isVar := k.(ast.Variable)
				if !isVar || v.Symbol == "_" || !bound[v.Symbol] {
					return false
				}
				keys[v.Symbol] = true
			}
			after := map[string]bool{}
			for k := range keys {
				after[k] = true
			}
			for _, st := range stmts[1:] {
				if !vxAllIn(st.Fn, bound) {
					return false
				}
				if st.Var.Symbol == "_" || after[st.Var.Symbol] {
					return false
				}
				after[st.Var.Symbol] = true
			}
			bound = after
		}
	}
	for _, arg := range c.Head.Args {
		if v, isVar := arg.(ast.Variable); isVar && v.Symbol == "_" {
			return false
		}
		if !vxAllIn(arg, bound) {
			return false
		}
	}
	return true
}

var vxPerm3 = [][]int{{0, 1, 2}, {0, 2, 1}, {1, 0, 2}, {1, 2, 0}, {2, 0, 1}, {2, 1, 0}}

func vxPermute(ts []ast.Term) []ast.Term {
	switch len(ts) {
	case 2:
		if vxChoose("order", 2) == 1 {
			return []ast.Term{ts[1], ts[0]}
		}
	case 3:
		p := vxPerm3[vxChoose("order", 6)]
		return []ast.Term{ts[p[0]], ts[p[1]], ts[p[2]]}
	case 4:
		// all 24 orders: choose the first, then a permutation of the remaining three
		f := vxChoose("order_first", 4)
		rest := make([]ast.Term, 0, 3)
		for i, t := range ts {
			if i != f {
				rest = append(rest, t)
			}
		}
		p := vxPerm3[vxChoose("order", 6)]
		return []ast.Term{ts[f], rest[p[0]], rest[p[1]], rest[p[2]]}
	}
	return ts
}

// vxSkeleton builds clause skeleton s with variable names chosen per slot, in a chosen premise order.
func vxSkeleton(s int) (ast.Clause, []ast.Atom) {
	T := func(i int, wild bool) ast.BaseTerm { return vxVar(vxSlot(i, wild)) }
	n := func(v int64) ast.BaseTerm { return ast.Number(v) }
	p1 := []ast.Atom{vxA("p", 1), vxA("p", 2), vxA("q", 2), vxA("r", 3)}
	switch s {
	case 0: // h(.) :- p(.), !q(.,.)
		c := ast.Clause{Head: vxA("h", T(0, true))}
		c.Premises = vxPermute([]ast.Term{vxA("p", T(1, true)), vxNot(vxA("q2", T(2, true), T(3, true)))})
		return c, append(p1, vxA("q2", 1, 5), vxA("q2", 7, 2))
	case 1: // h(.,.) :- p(.), . = .
		c := ast.Clause{Head: vxA("h", T(0, true), T(1, true))}
		c.Premises = vxPermute([]ast.Term{vxA("p", T(2, true)), ast.Eq{Left: T(3, false), Right: T(4, false)}})
		return c, p1
	case 2: // h(.) :- p(.), . != .
		c := ast.Clause{Head: vxA("h", T(0, true))}
		c.Premises = vxPermute([]ast.Term{vxA("p", T(1, true)), vxA("p", T(2, true)), ast.Ineq{Left: T(3, false), Right: T(4, false)}})
		return c, p1
	case 3: // h(.) :- p(.), :lt(.,.)
		c := ast.Clause{Head: vxA("h", T(0, true))}
		c.Premises = vxPermute([]ast.Term{vxA("p", T(1, true)), vxA("p", T(2, true)), vxA(":lt", T(3, false), T(4, false))})
		return c, p1
	case 4: // h(.) :- p(.), . = fn:plus(., 1)
		c := ast.Clause{Head: vxA("h", T(0, true))}
		c.Premises = vxPermute([]ast.Term{vxA("p", T(1, true)), ast.Eq{Left: T(2, false), Right: vxFn(symbols.Plus, T(3, false), n(1))}})
		return c, p1
	case 5: // h(.) :- p(.,.), !q(.), !r(.)
		c := ast.Clause{Head: vxA("h", T(0, true))}
		c.Premises = vxPermute([]ast.Term{vxA("pp", T(1, true), T(2, true)), vxNot(vxA("q", T(3, true))), vxNot(vxA("r", T(4, true)))})
		return c, append(p1, vxA("pp", 1, 2), vxA("pp", 2, 3), vxA("pp", 3, 3))
	case 6: // h(.) :- p(.) |> let . = fn:plus(., 1)
		c := ast.Clause{Head: vxA("h", T(0, true))}
		c.Premises = []ast.Term{vxA("p", T(1, true))}
		lv := vxVar(vxSlot(2, false))
		c.Transform = &ast.Transform{Statements: []ast.TransformStmt{{Var: &lv, Fn: vxFn(symbols.Plus, T(3, false), n(1))}}}
		return c, p1
	case 7: // h(.,.) :- pp(.,.) |> do fn:group_by(.), let . = fn:sum(.)
		c := ast.Clause{Head: vxA("h", T(0, true), T(1, true))}
		c.Premises = []ast.Term{vxA("pp", T(2, true), T(3, true))}
		lv := vxVar(vxSlot(5, false))
		c.Transform = &ast.Transform{Statements: []ast.TransformStmt{
			{Var: nil, Fn: vxFn(symbols.GroupBy, T(4, false))},
			{Var: &lv, Fn: vxFn(symbols.Sum, T(6, false))}}}
		return c, append(p1, vxA("pp", 1, 2), vxA("pp", 1, 5), vxA("pp", 3, 3))
	case 8: // h(.) :- p(.), fn:plus(.,1) = fn:plus(.,1), p(.)
		c := ast.Clause{Head: vxA("h", T(0, true))}
		c.Premises = vxPermute([]ast.Term{vxA("p", T(1, true)),
			ast.Eq{Left: vxFn(symbols.Plus, T(2, false), n(1)), Right: vxFn(symbols.Plus, T(3, false), n(1))},
			vxA("p", T(4, true))})
		return c, p1
	case 9: // h(.) :- p(.), !q2(., 5) with a constant in the negated atom, and a second positive atom
		c := ast.Clause{Head: vxA("h", T(0, true))}
		c.Premises = vxPermute([]ast.Term{vxA("p", T(1, true)), vxNot(vxA("q2", T(2, true), n(5))), vxA("q", T(3, true))})
		return c, append(p1, vxA("q2", 1, 5), vxA("q2", 2, 6))
	case 10: // h(.) :- p(.), !q(.), !r(.), pp(.,_): two negated atoms among two positive ones (delay and release of several negations)
		c := ast.Clause{Head: vxA("h", T(0, false))}
		c.Premises = vxPermute([]ast.Term{vxA("p", T(1, false)), vxNot(vxA("q", T(2, false))), vxNot(vxA("r", T(3, false))), vxA("pp", T(4, false), vxVar("_"))})
		return c, append(p1, vxA("pp", 1, 2), vxA("pp", 2, 3), vxA("pp", 3, 3), vxA("r", 1), vxA("q", 3))
	case 11: // h(V) :- p(_) [, q(_)]: the head variable is not bound by the body; its name may look like a
		// generated fresh variable (X0, X1: what wildcards are replaced with)
		v := vxVar([]string{"X", "X0", "X1", "X2"}[vxChoose("headvar", 4)])
		c := ast.Clause{Head: vxA("h", v)}
		c.Premises = []ast.Term{vxA("p", vxVar("_"))}
		if vxChoose("two-wildcards", 2) == 1 {
			c.Premises = append(c.Premises, vxA("q", vxVar("_")))
		}
		if vxChoose("bound-too", 2) == 1 {
			// control: the same head variable also bound by a positive atom
			c.Premises = append(c.Premises, vxA("p", v))
		}
		return c, p1
	case 12: // aggregation over a two-premise body with a wildcard inside an equality (hidden helper relation)
		c := ast.Clause{Head: vxA("h", "S", "N")}
		c.Premises = vxPermute([]ast.Term{vxA("pp", "S", "V"), vxA("p", "S"), ast.Eq{Left: vxVar("_"), Right: vxFn(symbols.Plus, "V", n(1))}})
		lv := vxVar("N")
		c.Transform = &ast.Transform{Statements: []ast.TransformStmt{
			{Var: nil, Fn: vxFn(symbols.GroupBy, "S")},
			{Var: &lv, Fn: vxFn(symbols.Sum, "V")}}}
		return c, append(p1, vxA("pp", 1, 2), vxA("pp", 1, 5), vxA("pp", 2, 3))
	}
	panic("skeleton")
}

// vxClassify tags the clause shape so that findings can be told apart.
func vxClassify(c ast.Clause) {
	pos := map[string]bool{} // variables occurring in positive atoms anywhere
	for _, t := range c.Premises {
		if a, ok := t.(ast.Atom); ok && !a.Predicate.IsBuiltin() {
			for _, arg := range a.Args {
				vxTermVars(arg, pos)
			}
		}
	}
	sofar := map[string]bool{}
	for _, t := range c.Premises {
		switch p := t.(type) {
		case ast.Atom:
			if p.Predicate.IsBuiltin() {
				for _, arg := range p.Args {
					if !vxAllIn(arg, sofar) && vxAllIn(arg, pos) {
						vxTag("operand-bound-by-later-atom")
					}
				}
				continue
			}
			seen := map[string]bool{}
			for _, arg := range p.Args {
				if v, ok := arg.(ast.Variable); ok && v.Symbol != "_" {
					if seen[v.Symbol] && c.Transform != nil && !c.Transform.IsLetTransform() {
						vxTag("repeated-variable-in-aggregated-atom")
					}
					seen[v.Symbol] = true
				}
				vxTermVars(arg, sofar)
			}
		case ast.NegAtom:
			for _, arg := range p.Atom.Args {
				if v, ok := arg.(ast.Variable); ok && v.Symbol == "_" {
					vxTag("negated-atom-with-wildcard")
				}
				if !vxAllIn(arg, pos) {
					vxTag("negated-atom-with-never-bound-variable")
				}
			}
		case ast.Ineq:
			if (!vxAllIn(p.Left, sofar) && vxAllIn(p.Left, pos)) || (!vxAllIn(p.Right, sofar) && vxAllIn(p.Right, pos)) {
				vxTag("operand-bound-by-later-atom")
			}
		case ast.Eq:
			if (!vxAllIn(p.Left, sofar) && vxAllIn(p.Left, pos)) || (!vxAllIn(p.Right, sofar) && vxAllIn(p.Right, pos)) {
				vxTag("operand-bound-by-later-atom")
			}
			if v, ok := p.Left.(ast.Variable); ok {
				sofar[v.Symbol] = true
			}
			if v, ok := p.Right.(ast.Variable); ok {
				sofar[v.Symbol] = true
			}
		}
	}
	if c.Transform != nil {
		for _, st := range c.Transform.Statements {
			if st.Var != nil && !vxAllIn(st.Fn, pos) {
				vxTag("transform-argument-never-bound")
			}
		}
	}
}

// VxC04Safety: all variable placements of clause skeleton S, in every premise order.
func VxC04Safety() {
	c, facts := vxSkeleton(vxParam("S", 0))
	if n := vxParam("SYM", 0); n > 0 {
		// the arguments of the first n base facts are arbitrary int64: acceptance must be
		// safe, and the stored result exact, for every data set, not for one
		for i := 0; i < n && i < len(facts); i++ {
			args := make([]ast.BaseTerm, len(facts[i].Args))
			for j := range args {
				args[j] = ast.Number(vxInt64(fmt.Sprintf("d%d_%d", i, j)))
			}
			facts[i] = ast.Atom{Predicate: facts[i].Predicate, Args: args}
		}
	}
	vxClassify(c)
	safe := vxStaticSafe(c)
	decls := map[ast.PredicateSym]ast.Decl{}
	base := factstore.NewSimpleInMemoryStore()
	store := &base
	ref := vxNewRef()
	var preds []ast.PredicateSym
	for _, f := range facts {
		if _, ok := decls[f.Predicate]; !ok {
			decls[f.Predicate] = ast.NewSyntheticDeclFromSym(f.Predicate)
			preds = append(preds, f.Predicate)
		}
		store.Add(f)
		ref.addAtom(f)
	}
	pi, err := analysis.AnalyzeOneUnit(parse.SourceUnit{Clauses: []ast.Clause{c}}, decls)
	vxReach("analysed")
	if !safe {
		vxAssert(err != nil, "unsafe-clause-rejected")
		return
	}
	if err != nil {
		return // analysis may be stricter than the property's safety condition
	}
	err = EvalProgram(pi, store)
	vxAssert(err == nil, "accepted-clause-evaluates-without-error")
	// only ground facts are stored, in every relation of the store (hidden helper relations included)
	for _, sym := range store.ListPredicates() {
		store.GetFacts(ast.NewQuery(sym), func(a ast.Atom) error {
			for _, arg := range a.Args {
				_, isConst := arg.(ast.Constant)
				vxAssert(isConst, "store-holds-only-ground-facts")
			}
			return nil
		})
	}
	unsafe, conv := ref.vxRefEval([]ast.Clause{c}, 10)
	vxAssert(!unsafe && conv, "reference-evaluates")
	if ref.err != nil {
		return // the clause fails at run time in the reference too (e.g. comparison of non-numbers)
	}
	vxCompare(store, ref, []ast.PredicateSym{c.Head.Predicate}, "as-written")
}
