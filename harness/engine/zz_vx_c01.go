package engine

// C01: evaluation yields exactly the stratified least model (vs. the reference evaluator).

import (
	"fmt"

	"codeberg.org/TauCeti/mangle-go/analysis"
	"codeberg.org/TauCeti/mangle-go/ast"
	"codeberg.org/TauCeti/mangle-go/factstore"
	"codeberg.org/TauCeti/mangle-go/parse"
	"codeberg.org/TauCeti/mangle-go/symbols"
)

type vxTemplate struct {
	name  string
	rules []ast.Clause
	edb   []ast.PredicateSym // extensional predicates, filled with symbolic facts in round-robin
	idb   []ast.PredicateSym
	rng   int64 // if > 0: fact arguments are assumed in [0, rng)
	decls []ast.Decl // extra declarations handed to analysis with the rules (descriptors such as fundep/merge)
	gen   bool  // generated program (zz_vx_gen.go): analysis may reject it when unstratifiable
	enum  int   // if > 0: fact arguments are case indices 0..enum-1 (concrete), used where mangle's pairing hash (symbolic x symbolic products) defeats the solver
}

func vxP(sym string, arity int) ast.PredicateSym { return ast.PredicateSym{Symbol: sym, Arity: arity} }

// vxTemplates: the program family of C01/C05/C17/C20 (transform-free unless noted).
func vxTemplates() []vxTemplate {
	return []vxTemplate{
		{ // 0: linear transitive closure
			name: "linear-tc",
			rules: []ast.Clause{
				vxRule(vxA("p", "X", "Y"), vxA("e", "X", "Y")),
				vxRule(vxA("p", "X", "Z"), vxA("e", "X", "Y"), vxA("p", "Y", "Z")),
			},
			edb: []ast.PredicateSym{vxP("e", 2)}, idb: []ast.PredicateSym{vxP("p", 2)},
		},
		{ // 1: non-linear transitive closure
			name: "nonlinear-tc",
			rules: []ast.Clause{
				vxRule(vxA("p", "X", "Y"), vxA("e", "X", "Y")),
				vxRule(vxA("p", "X", "Z"), vxA("p", "X", "Y"), vxA("p", "Y", "Z")),
			},
			edb: []ast.PredicateSym{vxP("e", 2)}, idb: []ast.PredicateSym{vxP("p", 2)},
		},
		{ // 2: a rule that needs two facts first derived in the same later round
			name: "same-round-join",
			rules: []ast.Clause{
				vxRule(vxA("t", "X"), vxA("s", "X")),
				vxRule(vxA("t", "X"), vxA("r", "X")),
				vxRule(vxA("a", "X"), vxA("t", "X")),
				vxRule(vxA("b", "X"), vxA("t", "X")),
				vxRule(vxA("r", "X"), vxA("a", "X"), vxA("b", "X")),
			},
			edb: []ast.PredicateSym{vxP("s", 1)}, idb: []ast.PredicateSym{vxP("t", 1), vxP("a", 1), vxP("b", 1), vxP("r", 1)},
		},
		{ // 3: stratified negation
			name: "negation",
			rules: []ast.Clause{
				vxRule(vxA("reach", "X", "Y"), vxA("e", "X", "Y")),
				vxRule(vxA("reach", "X", "Z"), vxA("reach", "X", "Y"), vxA("e", "Y", "Z")),
				vxRule(vxA("node", "X"), vxA("e", "X", "_")),
				vxRule(vxA("node", "Y"), vxA("e", "_", "Y")),
				vxRule(vxA("unreach", "X", "Y"), vxA("node", "X"), vxA("node", "Y"), vxNot(vxA("reach", "X", "Y"))),
			},
			edb: []ast.PredicateSym{vxP("e", 2)}, idb: []ast.PredicateSym{vxP("reach", 2), vxP("node", 1), vxP("unreach", 2)},
		},
		{ // 4: comparisons and arithmetic
			name: "compare-arith",
			rules: []ast.Clause{
				vxRule(vxA("lt", "X", "Y"), vxA("e", "X", "Y"), vxA(":lt", "X", "Y")),
				vxRule(vxA("le", "X", "Y"), vxA("e", "X", "Y"), vxA(":le", "X", "Y")),
				vxRule(vxA("succ", "X", "Z"), vxA("e", "X", "_"), ast.Eq{Left: ast.Variable{Symbol: "Z"}, Right: vxFn(symbols.Plus, "X", 1)}),
				vxRule(vxA("next", "X", "Y"), vxA("e", "X", "Y"), ast.Eq{Left: ast.Variable{Symbol: "Y"}, Right: vxFn(symbols.Plus, "X", 1)}),
			},
			edb: []ast.PredicateSym{vxP("e", 2)}, idb: []ast.PredicateSym{vxP("lt", 2), vxP("le", 2), vxP("succ", 2), vxP("next", 2)},
		},
		{ // 5: equality and inequality
			name: "eq-ineq",
			rules: []ast.Clause{
				vxRule(vxA("loop", "X"), vxA("e", "X", "Y"), ast.Eq{Left: ast.Variable{Symbol: "X"}, Right: ast.Variable{Symbol: "Y"}}),
				vxRule(vxA("diff", "X", "Y"), vxA("e", "X", "Y"), ast.Ineq{Left: ast.Variable{Symbol: "X"}, Right: ast.Variable{Symbol: "Y"}}),
				vxRule(vxA("sib", "Y", "Z"), vxA("e", "X", "Y"), vxA("e", "X", "Z"), ast.Ineq{Left: ast.Variable{Symbol: "Y"}, Right: ast.Variable{Symbol: "Z"}}),
				vxRule(vxA("seven", "X"), vxA("e", "X", "Y"), ast.Eq{Left: ast.Variable{Symbol: "Y"}, Right: ast.Number(7)}),
			},
			edb: []ast.PredicateSym{vxP("e", 2)}, idb: []ast.PredicateSym{vxP("loop", 1), vxP("diff", 2), vxP("sib", 2), vxP("seven", 1)},
		},
		{ // 6: structured data: pairs and lists
			name: "pairs-lists",
			rules: []ast.Clause{
				vxRule(vxA("pr", "P"), vxA("e", "X", "Y"), ast.Eq{Left: ast.Variable{Symbol: "P"}, Right: vxFn(symbols.Pair, "X", "Y")}),
				vxRule(vxA("fst", "A"), vxA("pr", "P"), vxA(":match_pair", "P", "A", "_")),
				vxRule(vxA("lst", "L"), vxA("e", "X", "Y"), ast.Eq{Left: ast.Variable{Symbol: "L"}, Right: vxFn(symbols.List, "X", "Y")}),
				vxRule(vxA("mem", "M"), vxA("lst", "L"), vxA(":list:member", "M", "L")),
			},
			edb: []ast.PredicateSym{vxP("e", 2)}, idb: []ast.PredicateSym{vxP("pr", 1), vxP("fst", 1), vxP("lst", 1), vxP("mem", 1)},
			enum: 3,
		},
		{ // 7: let-transform
			name: "let-transform",
			rules: []ast.Clause{
				vxLet(vxRule(vxA("sum", "X", "S"), vxA("e", "X", "Y")), vxStmt("S", vxFn(symbols.Plus, "X", "Y"))),
				vxRule(vxA("big", "X"), vxA("sum", "X", "S"), vxA(":gt", "S", 10)),
			},
			edb: []ast.PredicateSym{vxP("e", 2)}, idb: []ast.PredicateSym{vxP("sum", 2), vxP("big", 1)},
		},
		{ // 8: mutual recursion over two relations, three strata
			name: "mutual-three-strata",
			rules: []ast.Clause{
				vxRule(vxA("ev", "X"), vxA("z", "X")),
				vxRule(vxA("ev", "Y"), vxA("od", "X"), vxA("e", "X", "Y")),
				vxRule(vxA("od", "Y"), vxA("ev", "X"), vxA("e", "X", "Y")),
				vxRule(vxA("only_ev", "X"), vxA("ev", "X"), vxNot(vxA("od", "X"))),
				vxRule(vxA("rest", "X"), vxA("e", "X", "_"), vxNot(vxA("only_ev", "X"))),
			},
			edb: []ast.PredicateSym{vxP("e", 2), vxP("z", 1)}, idb: []ast.PredicateSym{vxP("ev", 1), vxP("od", 1), vxP("only_ev", 1), vxP("rest", 1)},
		},
		{ // 9: equivalence closure: non-linear rule plus a second recursive source
			name: "equivalence-closure",
			rules: []ast.Clause{
				vxRule(vxA("eq", "X", "Y"), vxA("e", "X", "Y")),
				vxRule(vxA("eq", "Y", "X"), vxA("eq", "X", "Y")),
				vxRule(vxA("eq", "X", "Z"), vxA("eq", "X", "Y"), vxA("eq", "Y", "Z")),
			},
			edb: []ast.PredicateSym{vxP("e", 2)}, idb: []ast.PredicateSym{vxP("eq", 2)},
		},
		{ // 10: and-gates: the same recursive predicate twice in a body, late facts needed in either position
			name: "and-gates",
			rules: []ast.Clause{
				vxRule(vxA("on", "X"), vxA("input", "X")),
				vxRule(vxA("on", "Y"), vxA("on", "A"), vxA("on", "B"), vxA("gate", "A", "B", "Y")),
			},
			edb: []ast.PredicateSym{vxP("gate", 3), vxP("input", 1)}, idb: []ast.PredicateSym{vxP("on", 1)},
		},
		{ // 11: same generation (non-linear, two different EDB joins around the recursive atom)
			name: "same-generation",
			rules: []ast.Clause{
				vxRule(vxA("sg", "X", "X"), vxA("par", "X", "_")),
				vxRule(vxA("sg", "X", "Y"), vxA("par", "X", "XP"), vxA("sg", "XP", "YP"), vxA("par", "Y", "YP")),
			},
			edb: []ast.PredicateSym{vxP("par", 2)}, idb: []ast.PredicateSym{vxP("sg", 2)},
		},
		{ // 12: NOT stratifiable (recursion through negation over four predicates); C05 only: every presentation must be rejected
			name: "unstratifiable-cycle",
			rules: []ast.Clause{
				vxRule(vxA("win", "X"), vxA("pos", "X"), vxNot(vxA("lose", "X"))),
				vxRule(vxA("lose", "X"), vxA("step", "X")),
				vxRule(vxA("step", "X"), vxA("hop", "X")),
				vxRule(vxA("hop", "X"), vxA("win", "X")),
			},
			edb: []ast.PredicateSym{vxP("pos", 1)}, idb: []ast.PredicateSym{vxP("win", 1), vxP("lose", 1), vxP("step", 1), vxP("hop", 1)},
		},
		{ // 14 is appended below; 13: structured values built separately must join, negate and compare by structure (not identity)
			name: "structured-join",
			rules: []ast.Clause{
				vxRule(vxA("pr", "P"), vxA("e", "X", "Y"), ast.Eq{Left: ast.Variable{Symbol: "P"}, Right: vxFn(symbols.Pair, "X", "Y")}),
				vxRule(vxA("sw", "Q"), vxA("e", "X", "Y"), ast.Eq{Left: ast.Variable{Symbol: "Q"}, Right: vxFn(symbols.Pair, "Y", "X")}),
				vxRule(vxA("both", "P"), vxA("pr", "P"), vxA("sw", "P")),
				vxRule(vxA("only", "P"), vxA("pr", "P"), vxNot(vxA("sw", "P"))),
				vxRule(vxA("ne", "P", "Q"), vxA("pr", "P"), vxA("sw", "Q"), ast.Ineq{Left: ast.Variable{Symbol: "P"}, Right: ast.Variable{Symbol: "Q"}}),
				vxRule(vxA("ls", "X", "L"), vxA("e", "X", "Y"), ast.Eq{Left: ast.Variable{Symbol: "L"}, Right: vxFn(symbols.List, "X", "Y")}),
				vxRule(vxA("same", "X", "Y"), vxA("ls", "X", "L"), vxA("ls", "Y", "L")),
			},
			edb: []ast.PredicateSym{vxP("e", 2)},
			idb: []ast.PredicateSym{vxP("pr", 1), vxP("sw", 1), vxP("both", 1), vxP("only", 1), vxP("ne", 2), vxP("ls", 2), vxP("same", 2)},
			enum: 3,
		},
		{ // 14: two negated atoms written before the atoms that bind their variables (released at different premises)
			name: "two-early-negations",
			rules: []ast.Clause{
				vxRule(vxA("exx", "X"), vxA("e", "X", "_")),
				vxRule(vxA("exy", "Y"), vxA("e", "_", "Y")),
				vxRule(vxA("pick", "X", "Y"), vxNot(vxA("exy", "Y")), vxNot(vxA("exx", "X")), vxA("cx", "X"), vxA("cy", "Y")),
				vxRule(vxA("pick2", "X", "Y"), vxNot(vxA("exx", "X")), vxNot(vxA("exy", "Y")), vxA("cy", "Y"), vxA("cx", "X")),
			},
			edb: []ast.PredicateSym{vxP("e", 2), vxP("cx", 1), vxP("cy", 1)},
			idb: []ast.PredicateSym{vxP("exx", 1), vxP("exy", 1), vxP("pick", 2), vxP("pick2", 2)},
		},
	}
}

func vxNewStore(kind int) factstore.FactStore {
	switch kind {
	case 0:
		s := factstore.NewSimpleInMemoryStore()
		return &s
	case 1:
		return factstore.NewMultiIndexedArrayInMemoryStore()
	case 2:
		s := factstore.NewIndexedInMemoryStore()
		return &s
	case 3:
		s := factstore.NewMultiIndexedInMemoryStore()
		return &s
	case 4:
		base := factstore.NewSimpleInMemoryStore()
		return factstore.NewMergedStore([]factstore.ReadOnlyFactStore{}, &base)
	case 5:
		base := factstore.NewSimpleInMemoryStore()
		t := factstore.NewTeeingStore(&base)
		return &t
	}
	panic("store kind")
}

// vxFillFacts adds K symbolic facts over the template's extensional predicates to store and ref.
func vxFillFacts(t vxTemplate, k int, store factstore.FactStore, ref *vxRef) {
	for i := 0; i < k; i++ {
		p := t.edb[i%len(t.edb)]
		args := make([]ast.BaseTerm, p.Arity)
		for j := range args {
			var v int64
			if t.enum > 0 {
				v = int64(vxChoose(fmt.Sprintf("f%d_%d", i, j), t.enum))
			} else {
				v = vxInt64(fmt.Sprintf("f%d_%d", i, j))
			}
			if t.rng > 0 {
				vxAssume(v >= 0 && v < t.rng)
			}
			args[j] = ast.Number(v)
			if vxParam("KINDS", 1) > 1 && vxChoose(fmt.Sprintf("k%d_%d", i, j), 2) == 1 {
				// the same payload as a duration: a different value with the same hash
				args[j] = ast.Duration(v)
				vxTag("mixed-kind-arguments")
			}
		}
		a := ast.Atom{Predicate: p, Args: args}
		if store != nil {
			store.Add(a)
		}
		if ref != nil {
			ref.addAtom(a)
		}
	}
}

func analysisAnalyze(rules []ast.Clause, decls map[ast.PredicateSym]ast.Decl) (*analysis.ProgramInfo, error) {
	return analysis.AnalyzeOneUnit(parse.SourceUnit{Clauses: rules}, decls)
}

func vxAnalyze(t vxTemplate) (*analysis.ProgramInfo, error) {
	decls := map[ast.PredicateSym]ast.Decl{}
	for _, p := range t.edb {
		decls[p] = ast.NewSyntheticDeclFromSym(p)
	}
	return analysis.AnalyzeOneUnit(parse.SourceUnit{Clauses: t.rules, Decls: t.decls}, decls)
}

// VxC01Model: real analysis + real semi-naive engine on a store kind vs the reference model.
func VxC01Model() {
	t := vxTemplateFor(vxParam("TPL", 0))
	k := vxParam("K", 2)
	store := vxNewStore(vxParam("STORE", 0))
	ref := vxNewRef()
	vxFillFacts(t, k, store, ref)
	pi, err := vxAnalyze(t)
	vxAssert(err == nil, "analysis-accepts-template")
	err = EvalProgram(pi, store)
	vxObserve("facts-after-eval", store.EstimateFactCount())
	vxReach("evaluated")
	if t.gen {
		// every generated rule is safe: evaluation refuses exactly the programs for which the
		// reference finds no stratification
		_, stratifiable := vxStrata(t.rules)
		vxAssert((err == nil) == stratifiable, "generated-program-rejected-iff-unstratifiable")
		if err != nil {
			return
		}
	}
	vxAssert(err == nil, "eval-no-error")
	unsafe, conv := ref.vxRefEval(t.rules, 50)
	vxAssert(!unsafe && conv && ref.err == nil, "reference-evaluates")
	vxCompare(store, ref, append(append([]ast.PredicateSym{}, t.edb...), t.idb...), "model")
}
