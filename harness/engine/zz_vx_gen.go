package engine

// Generated programs for C01/C05/C20: instead of a hand-written template, M rule slots are
// filled from a small grammar (head, shape, body predicates chosen per case index), on top of
// the fixed rule p(X,Y) :- e(X,Y). Every rule of the grammar is safe, so analysis may reject a
// generated program only for being unstratifiable (checked against the reference's own
// stratification).

import (
	"fmt"

	"codeberg.org/TauCeti/mangle-go/ast"
)

const vxGenBase = 100 // TPL = vxGenBase + M selects the generated family with M slots
const vxAggBase = 200 // TPL = vxAggBase + n selects aggregation template n of C02

func vxGenRule(i int) ast.Clause {
	heads := []string{"p", "q"}
	bodies := []string{"e", "p", "q"}
	h := heads[vxChoose(fmt.Sprintf("g%d_head", i), 2)]
	shape := vxChoose(fmt.Sprintf("g%d_shape", i), 10)
	if vxParam("KINDS", 1) > 1 {
		// base facts of mixed kinds (numbers and durations): the numeric comparison of shape 3
		// legitimately fails on a duration, so that shape is left to the numbers-only explorations
		vxAssume(shape != 3)
	}
	b1 := bodies[vxChoose(fmt.Sprintf("g%d_b1", i), 3)]
	b2 := ""
	if shape >= 4 {
		b2 = bodies[vxChoose(fmt.Sprintf("g%d_b2", i), 3)]
	}
	switch shape {
	case 0: // copy
		return vxRule(vxA(h, "X", "Y"), vxA(b1, "X", "Y"))
	case 1: // swap
		return vxRule(vxA(h, "X", "Y"), vxA(b1, "Y", "X"))
	case 2: // diagonal
		return vxRule(vxA(h, "X", "X"), vxA(b1, "X", "_"))
	case 3: // data-dependent filter
		return vxRule(vxA(h, "X", "Y"), vxA(b1, "X", "Y"), vxA(":lt", "X", "Y"))
	case 4: // chain join
		return vxRule(vxA(h, "X", "Y"), vxA(b1, "X", "Z"), vxA(b2, "Z", "Y"))
	case 5: // negation
		return vxRule(vxA(h, "X", "Y"), vxA(b1, "X", "Y"), vxNot(vxA(b2, "Y", "X")))
	case 6: // symmetric join
		return vxRule(vxA(h, "X", "Y"), vxA(b1, "X", "Y"), vxA(b2, "Y", "X"))
	case 7: // join on the first column with an inequality
		return vxRule(vxA(h, "Y", "Z"), vxA(b1, "X", "Y"), vxA(b2, "X", "Z"), ast.Ineq{Left: ast.Variable{Symbol: "Y"}, Right: ast.Variable{Symbol: "Z"}})
	case 8: // a filter that depends on the first premise only, before a later (possibly recursive) atom
		return vxRule(vxA(h, "X", "Y"), vxA(b1, "X", "Z"), ast.Ineq{Left: ast.Variable{Symbol: "X"}, Right: ast.Variable{Symbol: "Z"}}, vxA(b2, "Z", "Y"))
	default: // a negated extensional atom between the first premise and a later (possibly recursive) atom
		return vxRule(vxA(h, "X", "Y"), vxA(b1, "X", "Z"), vxNot(vxA("e", "Z", "X")), vxA(b2, "Z", "Y"))
	}
}

func vxGenTemplate(m int) vxTemplate {
	t := vxTemplate{name: fmt.Sprintf("generated-%d", m), gen: true,
		edb: []ast.PredicateSym{vxP("e", 2)}, idb: []ast.PredicateSym{vxP("p", 2), vxP("q", 2)}}
	t.rules = append(t.rules, vxRule(vxA("p", "X", "Y"), vxA("e", "X", "Y")))
	qDefined := false
	for i := 0; i < m; i++ {
		r := vxGenRule(i)
		if r.Head.Predicate.Symbol == "q" {
			qDefined = true
		}
		t.rules = append(t.rules, r)
	}
	if !qDefined {
		// q has no rule: it is a second extensional predicate (declared, filled with facts)
		t.edb = append(t.edb, vxP("q", 2))
		t.idb = t.idb[:1]
	}
	return t
}

// vxTemplateFor: a hand-written template, or the generated family for tpl >= vxGenBase.
func vxTemplateFor(tpl int) vxTemplate {
	if tpl >= vxAggBase {
		t := vxAggTemplates()[tpl-vxAggBase]
		t.rng = 3 // group keys are printed by the engine: keep them one digit long
		return t
	}
	if tpl >= vxGenBase {
		return vxGenTemplate(tpl - vxGenBase)
	}
	return vxTemplates()[tpl]
}
