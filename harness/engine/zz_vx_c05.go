package engine

// C05: results do not depend on presentation, ordering, store choice or map iteration order.
// Differential: the same symbolic base facts are evaluated twice in one path —
// canonical presentation vs. a variant — and the two fact sets are compared.

import (
	"codeberg.org/TauCeti/mangle-go/analysis"
	"codeberg.org/TauCeti/mangle-go/ast"
	"codeberg.org/TauCeti/mangle-go/factstore"
	"codeberg.org/TauCeti/mangle-go/parse"
)

func vxRenameTerm(t ast.BaseTerm, vr func(string) string) ast.BaseTerm {
	switch x := t.(type) {
	case ast.Variable:
		if x.Symbol == "_" {
			return x
		}
		return ast.Variable{Symbol: vr(x.Symbol)}
	case ast.ApplyFn:
		args := make([]ast.BaseTerm, len(x.Args))
		for i, a := range x.Args {
			args[i] = vxRenameTerm(a, vr)
		}
		return ast.ApplyFn{Function: x.Function, Args: args}
	}
	return t
}

func vxRenameAtom(a ast.Atom, vr, pr func(string) string) ast.Atom {
	args := make([]ast.BaseTerm, len(a.Args))
	for i, x := range a.Args {
		args[i] = vxRenameTerm(x, vr)
	}
	sym := a.Predicate.Symbol
	if !a.Predicate.IsBuiltin() {
		sym = pr(sym)
	}
	return ast.Atom{Predicate: ast.PredicateSym{Symbol: sym, Arity: a.Predicate.Arity}, Args: args}
}

func vxRenameClause(c ast.Clause, vr, pr func(string) string) ast.Clause {
	out := ast.Clause{Head: vxRenameAtom(c.Head, vr, pr)}
	for _, t := range c.Premises {
		switch p := t.(type) {
		case ast.Atom:
			out.Premises = append(out.Premises, vxRenameAtom(p, vr, pr))
		case ast.NegAtom:
			out.Premises = append(out.Premises, ast.NegAtom{Atom: vxRenameAtom(p.Atom, vr, pr)})
		case ast.Eq:
			out.Premises = append(out.Premises, ast.Eq{Left: vxRenameTerm(p.Left, vr), Right: vxRenameTerm(p.Right, vr)})
		case ast.Ineq:
			out.Premises = append(out.Premises, ast.Ineq{Left: vxRenameTerm(p.Left, vr), Right: vxRenameTerm(p.Right, vr)})
		}
	}
	if c.Transform != nil {
		tr := &ast.Transform{}
		for _, st := range c.Transform.Statements {
			ns := ast.TransformStmt{Fn: vxRenameTerm(st.Fn, vr).(ast.ApplyFn)}
			if st.Var != nil {
				v := ast.Variable{Symbol: vr(st.Var.Symbol)}
				ns.Var = &v
			}
			tr.Statements = append(tr.Statements, ns)
		}
		out.Transform = tr
	}
	return out
}

func vxID(s string) string { return s }

type vxRun struct {
	rules   []ast.Clause
	edb     []ast.PredicateSym
	store   factstore.FactStore
	opts    []EvalOption
	reverse bool // add base facts in reverse order
	pr      func(string) string
}

func vxEvalRun(t vxTemplate, k int, r vxRun) (factstore.FactStore, error) {
	// base facts
	type fact struct{ a ast.Atom }
	var facts []ast.Atom
	tmp := factstore.NewSimpleInMemoryStore()
	_ = tmp
	collect := &vxCollector{}
	vxFillFacts(t, k, collect, nil)
	facts = collect.atoms
	if r.reverse {
		for i, j := 0, len(facts)-1; i < j; i, j = i+1, j-1 {
			facts[i], facts[j] = facts[j], facts[i]
		}
	}
	for _, f := range facts {
		r.store.Add(vxRenameAtom(f, vxID, r.pr))
	}
	decls := map[ast.PredicateSym]ast.Decl{}
	for _, p := range r.edb {
		decls[p] = ast.NewSyntheticDeclFromSym(p)
	}
	pi, err := analysis.AnalyzeOneUnit(parse.SourceUnit{Clauses: r.rules}, decls)
	if err != nil {
		return nil, err
	}
	return r.store, EvalProgram(pi, r.store, r.opts...)
}

// vxCollector is a FactStore that only records added atoms (in order).
type vxCollector struct {
	factstore.SimpleInMemoryStore
	atoms []ast.Atom
}

func (c *vxCollector) Add(a ast.Atom) bool { c.atoms = append(c.atoms, a); return true }

// VxC05Variant: canonical run vs. variant VAR on template TPL with K symbolic facts.
func VxC05Variant() {
	t := vxTemplateFor(vxParam("TPL", 0))
	k := vxParam("K", 2)
	variant := vxParam("VAR", 0)
	canon := vxRun{rules: t.rules, edb: t.edb, store: vxNewStore(0), pr: vxID}
	vxMapOrder(0)
	s0, err0 := vxEvalRun(t, k, canon)
	if vxParam("TPL", 0) != 12 && !t.gen {
		vxAssert(err0 == nil, "canonical-run-ok")
	}

	v := vxRun{rules: append([]ast.Clause{}, t.rules...), edb: t.edb, store: vxNewStore(0), pr: vxID}
	switch variant {
	case 0: // clauses reversed
		for i, j := 0, len(v.rules)-1; i < j; i, j = i+1, j-1 {
			v.rules[i], v.rules[j] = v.rules[j], v.rules[i]
		}
	case 1: // clauses rotated by one
		v.rules = append(v.rules[1:], v.rules[0])
	case 2: // base facts in reverse order
		v.reverse = true
	case 3: // variables renamed consistently
		for i := range v.rules {
			v.rules[i] = vxRenameClause(v.rules[i], func(s string) string { return "V" + s + "q" }, vxID)
		}
	case 4: // predicates renamed consistently
		pr := func(s string) string { return "zz_" + s }
		v.pr = pr
		for i := range v.rules {
			v.rules[i] = vxRenameClause(v.rules[i], vxID, pr)
		}
		v.edb = nil
		for _, p := range t.edb {
			v.edb = append(v.edb, ast.PredicateSym{Symbol: pr(p.Symbol), Arity: p.Arity})
		}
	case 5:
		v.store = vxNewStore(1)
	case 6:
		v.store = vxNewStore(2)
	case 7:
		v.store = vxNewStore(3)
	case 8:
		v.opts = []EvalOption{WithDeterministicOrder()}
	case 9:
		vxMapOrder(1) // reverse
	case 10:
		vxMapOrder(2) // rotate 1
	case 11:
		vxMapOrder(3) // rotate 2
	case 12:
		vxMapOrder(4) // every order of every map with <= 3 entries
	}
	s1, err1 := vxEvalRun(t, k, v)
	vxMapOrder(0)
	vxReach("both-runs")
	vxAssert((err0 == nil) == (err1 == nil), "accepted-or-rejected-alike")
	if err0 != nil {
		return
	}
	for _, p := range append(append([]ast.PredicateSym{}, t.edb...), t.idb...) {
		a := vxStoreFacts(s0, p)
		b := vxStoreFacts(s1, ast.PredicateSym{Symbol: v.pr(p.Symbol), Arity: p.Arity})
		for _, x := range a {
			found := false
			for _, y := range b {
				if vxTupleEq(x, y) {
					found = true
				}
			}
			vxAssert(found, "canonical-subset-of-variant("+p.Symbol+")")
		}
		for _, y := range b {
			found := false
			for _, x := range a {
				if vxTupleEq(x, y) {
					found = true
				}
			}
			vxAssert(found, "variant-subset-of-canonical("+p.Symbol+")")
		}
	}
}
