package engine

// Reference evaluator used as the oracle of the engine-level harnesses:
// naive stratified bottom-up evaluation with its own stratification, its own
// matching (no union-find, no indexes) and its own folds for aggregates.
// It shares only functional.EvalExpr (C07), builtin.Decide for structural
// match predicates (C07) and Constant.Equals (C08) with the code under test.

import (
	"fmt"

	"codeberg.org/TauCeti/mangle-go/ast"
	"codeberg.org/TauCeti/mangle-go/builtin"
	"codeberg.org/TauCeti/mangle-go/factstore"
	"codeberg.org/TauCeti/mangle-go/functional"
	"codeberg.org/TauCeti/mangle-go/symbols"
	"codeberg.org/TauCeti/mangle-go/unionfind"
)

// ---- small construction DSL ----

func vxT(x any) ast.BaseTerm {
	switch v := x.(type) {
	case string:
		return ast.Variable{Symbol: v}
	case int:
		return ast.Number(int64(v))
	case int64:
		return ast.Number(v)
	case ast.BaseTerm:
		return v
	}
	panic(fmt.Sprintf("vxT: %T", x))
}

func vxA(pred string, args ...any) ast.Atom {
	ts := make([]ast.BaseTerm, len(args))
	for i, a := range args {
		ts[i] = vxT(a)
	}
	return ast.Atom{Predicate: ast.PredicateSym{Symbol: pred, Arity: len(args)}, Args: ts}
}

func vxNot(a ast.Atom) ast.NegAtom { return ast.NegAtom{Atom: a} }

func vxFn(fn ast.FunctionSym, args ...any) ast.ApplyFn {
	ts := make([]ast.BaseTerm, len(args))
	for i, a := range args {
		ts[i] = vxT(a)
	}
	return ast.ApplyFn{Function: fn, Args: ts}
}

func vxRule(head ast.Atom, body ...ast.Term) ast.Clause {
	return ast.Clause{Head: head, Premises: body}
}

func vxLet(c ast.Clause, stmts ...ast.TransformStmt) ast.Clause {
	c.Transform = &ast.Transform{Statements: stmts}
	return c
}

func vxStmt(v string, fn ast.ApplyFn) ast.TransformStmt {
	if v == "" {
		return ast.TransformStmt{Var: nil, Fn: fn}
	}
	vv := ast.Variable{Symbol: v}
	return ast.TransformStmt{Var: &vv, Fn: fn}
}

// ---- reference database ----

type vxRef struct {
	preds []ast.PredicateSym
	facts map[ast.PredicateSym][][]ast.Constant
	err   error
}

func vxNewRef() *vxRef {
	return &vxRef{facts: map[ast.PredicateSym][][]ast.Constant{}}
}

func vxTupleEq(a, b []ast.Constant) bool {
	if len(a) != len(b) {
		return false
	}
	for i := range a {
		if !a[i].Equals(b[i]) {
			return false
		}
	}
	return true
}

func (r *vxRef) has(p ast.PredicateSym, t []ast.Constant) bool {
	for _, u := range r.facts[p] {
		if vxTupleEq(t, u) {
			return true
		}
	}
	return false
}

func (r *vxRef) add(p ast.PredicateSym, t []ast.Constant) bool {
	if r.has(p, t) {
		return false
	}
	if _, ok := r.facts[p]; !ok {
		r.preds = append(r.preds, p)
	}
	r.facts[p] = append(r.facts[p], t)
	return true
}

func (r *vxRef) addAtom(a ast.Atom) bool {
	t := make([]ast.Constant, len(a.Args))
	for i, x := range a.Args {
		c, ok := x.(ast.Constant)
		if !ok {
			panic("vxRef.addAtom: non-ground atom")
		}
		t[i] = c
	}
	return r.add(a.Predicate, t)
}

func (r *vxRef) size() int {
	n := 0
	for _, fs := range r.facts {
		n += len(fs)
	}
	return n
}

// ---- environments ----

type vxBinding struct {
	name string
	val  ast.Constant
}
type vxEnv []vxBinding

func (e vxEnv) get(name string) (ast.Constant, bool) {
	for _, b := range e {
		if b.name == name {
			return b.val, true
		}
	}
	return ast.Constant{}, false
}

func (e vxEnv) subst() ast.ConstSubstList {
	var s ast.ConstSubstList
	for _, b := range e {
		s = s.Extend(ast.Variable{Symbol: b.name}, b.val)
	}
	return s
}

func (e vxEnv) with(name string, c ast.Constant) vxEnv {
	n := make(vxEnv, len(e), len(e)+1)
	copy(n, e)
	return append(n, vxBinding{name, c})
}

// vxVarsBound reports whether all variables of t (except wildcards) are bound.
func vxVarsBound(t ast.BaseTerm, e vxEnv) bool {
	switch x := t.(type) {
	case ast.Constant:
		return true
	case ast.Variable:
		if x.Symbol == "_" {
			return true
		}
		_, ok := e.get(x.Symbol)
		return ok
	case ast.ApplyFn:
		for _, a := range x.Args {
			if !vxVarsBound(a, e) {
				return false
			}
		}
		return true
	}
	return false
}

// vxEvalTerm evaluates a bound base term to a constant.
func vxEvalTerm(t ast.BaseTerm, e vxEnv) (ast.Constant, error) {
	switch x := t.(type) {
	case ast.Constant:
		return x, nil
	case ast.Variable:
		c, ok := e.get(x.Symbol)
		if !ok {
			return ast.Constant{}, fmt.Errorf("unbound %s", x.Symbol)
		}
		return c, nil
	case ast.ApplyFn:
		r, err := functional.EvalExpr(x, e.subst())
		if err != nil {
			return ast.Constant{}, err
		}
		c, ok := r.(ast.Constant)
		if !ok {
			return ast.Constant{}, fmt.Errorf("not a constant")
		}
		return c, nil
	}
	return ast.Constant{}, fmt.Errorf("bad term")
}

// vxMatch matches atom args against a tuple, extending env.
func vxMatch(args []ast.BaseTerm, t []ast.Constant, e vxEnv) (vxEnv, bool) {
	for i, a := range args {
		switch x := a.(type) {
		case ast.Constant:
			if !x.Equals(t[i]) {
				return nil, false
			}
		case ast.Variable:
			if x.Symbol == "_" {
				continue
			}
			if c, ok := e.get(x.Symbol); ok {
				if !c.Equals(t[i]) {
					return nil, false
				}
			} else {
				e = e.with(x.Symbol, t[i])
			}
		case ast.ApplyFn:
			c, err := vxEvalTerm(x, e)
			if err != nil || !c.Equals(t[i]) {
				return nil, false
			}
		}
	}
	return e, true
}

type vxUnsafe struct{ why string }

// vxSolve returns all solutions of the premises (evaluated in a safe order).
// unsafe is set if some premise can never become evaluable.
func (r *vxRef) vxSolve(premises []ast.Term, envs []vxEnv) (out []vxEnv, unsafe bool) {
	pending := append([]ast.Term(nil), premises...)
	for len(pending) > 0 {
		picked := -1
		// readiness is judged on the variable sets, which are the same for all envs
		var probe vxEnv
		if len(envs) > 0 {
			probe = envs[0]
		}
		ready := func(t ast.Term) bool {
			switch p := t.(type) {
			case ast.Atom:
				if !p.Predicate.IsBuiltin() {
					return true
				}
				switch p.Predicate.Symbol {
				case symbols.MatchPair.Symbol, symbols.MatchCons.Symbol, symbols.MatchEntry.Symbol, symbols.MatchField.Symbol, symbols.MatchNil.Symbol:
					return vxVarsBound(p.Args[0], probe)
				case symbols.ListMember.Symbol:
					return vxVarsBound(p.Args[1], probe)
				}
				for _, a := range p.Args {
					if !vxVarsBound(a, probe) {
						return false
					}
				}
				return true
			case ast.NegAtom:
				for _, a := range p.Atom.Args {
					if !vxVarsBound(a, probe) {
						return false
					}
				}
				return true
			case ast.Eq:
				l, rr := vxVarsBound(p.Left, probe), vxVarsBound(p.Right, probe)
				if l && rr {
					return true
				}
				if _, isVar := p.Left.(ast.Variable); isVar && rr {
					return true
				}
				if _, isVar := p.Right.(ast.Variable); isVar && l {
					return true
				}
				return false
			case ast.Ineq:
				return vxVarsBound(p.Left, probe) && vxVarsBound(p.Right, probe)
			}
			return false
		}
		if len(envs) == 0 {
			// no solutions left: readiness cannot be judged on data; decide on static grounds below
			return nil, false
		}
		for i, t := range pending {
			if ready(t) {
				picked = i
				break
			}
		}
		if picked < 0 {
			return nil, true
		}
		t := pending[picked]
		pending = append(pending[:picked:picked], pending[picked+1:]...)
		var next []vxEnv
		for _, e := range envs {
			next = append(next, r.vxStep(t, e)...)
		}
		envs = next
	}
	return envs, false
}

func (r *vxRef) vxStep(t ast.Term, e vxEnv) []vxEnv {
	switch p := t.(type) {
	case ast.Atom:
		if p.Predicate.IsBuiltin() {
			return r.vxBuiltin(p, e)
		}
		var out []vxEnv
		for _, tup := range r.facts[p.Predicate] {
			if ne, ok := vxMatch(p.Args, tup, e); ok {
				out = append(out, ne)
			}
		}
		return out
	case ast.NegAtom:
		for _, tup := range r.facts[p.Atom.Predicate] {
			if _, ok := vxMatch(p.Atom.Args, tup, e); ok {
				return nil
			}
		}
		return []vxEnv{e}
	case ast.Eq:
		lb, rb := vxVarsBound(p.Left, e), vxVarsBound(p.Right, e)
		switch {
		case lb && rb:
			l, err1 := vxEvalTerm(p.Left, e)
			rr, err2 := vxEvalTerm(p.Right, e)
			if err1 != nil || err2 != nil {
				r.noteErr(err1, err2)
				return nil
			}
			if l.Equals(rr) {
				return []vxEnv{e}
			}
			return nil
		case rb:
			c, err := vxEvalTerm(p.Right, e)
			if err != nil {
				r.noteErr(err)
				return nil
			}
			return []vxEnv{e.with(p.Left.(ast.Variable).Symbol, c)}
		case lb:
			c, err := vxEvalTerm(p.Left, e)
			if err != nil {
				r.noteErr(err)
				return nil
			}
			return []vxEnv{e.with(p.Right.(ast.Variable).Symbol, c)}
		}
		return nil
	case ast.Ineq:
		l, err1 := vxEvalTerm(p.Left, e)
		rr, err2 := vxEvalTerm(p.Right, e)
		if err1 != nil || err2 != nil {
			r.noteErr(err1, err2)
			return nil
		}
		if !l.Equals(rr) {
			return []vxEnv{e}
		}
		return nil
	}
	return nil
}

func (r *vxRef) noteErr(errs ...error) {
	for _, e := range errs {
		if e != nil && r.err == nil {
			r.err = e
		}
	}
}

func (r *vxRef) vxBuiltin(p ast.Atom, e vxEnv) []vxEnv {
	switch p.Predicate.Symbol {
	case symbols.Lt.Symbol, symbols.Le.Symbol, symbols.Gt.Symbol, symbols.Ge.Symbol:
		a, err1 := vxEvalTerm(p.Args[0], e)
		b, err2 := vxEvalTerm(p.Args[1], e)
		if err1 != nil || err2 != nil || a.Type != ast.NumberType || b.Type != ast.NumberType {
			r.noteErr(err1, err2, fmt.Errorf("comparison of non-numbers"))
			return nil
		}
		var ok bool
		switch p.Predicate.Symbol {
		case symbols.Lt.Symbol:
			ok = a.NumValue < b.NumValue
		case symbols.Le.Symbol:
			ok = a.NumValue <= b.NumValue
		case symbols.Gt.Symbol:
			ok = a.NumValue > b.NumValue
		case symbols.Ge.Symbol:
			ok = a.NumValue >= b.NumValue
		}
		if ok {
			return []vxEnv{e}
		}
		return nil
	}
	// structural predicates: evaluate bound arguments, delegate to builtin.Decide, read bindings back
	args := make([]ast.BaseTerm, len(p.Args))
	var outVars []string
	for i, a := range p.Args {
		if vxVarsBound(a, e) {
			if v, isVar := a.(ast.Variable); isVar && v.Symbol == "_" {
				args[i] = a
				continue
			}
			c, err := vxEvalTerm(a, e)
			if err != nil {
				r.noteErr(err)
				return nil
			}
			args[i] = c
		} else {
			args[i] = a
			outVars = append(outVars, a.(ast.Variable).Symbol)
		}
	}
	uf := unionfind.New()
	ok, sols, err := builtin.Decide(ast.Atom{Predicate: p.Predicate, Args: args}, &uf)
	if err != nil {
		r.noteErr(err)
		return nil
	}
	if !ok {
		return nil
	}
	var out []vxEnv
	for _, s := range sols {
		ne := e
		good := true
		for _, v := range outVars {
			c, isC := s.Get(ast.Variable{Symbol: v}).(ast.Constant)
			if !isC {
				good = false
				break
			}
			ne = ne.with(v, c)
		}
		if good {
			out = append(out, ne)
		}
	}
	return out
}

// vxHeadTuple instantiates the head under env.
func vxHeadTuple(h ast.Atom, e vxEnv) ([]ast.Constant, error) {
	t := make([]ast.Constant, len(h.Args))
	for i, a := range h.Args {
		c, err := vxEvalTerm(a, e)
		if err != nil {
			return nil, err
		}
		t[i] = c
	}
	return t, nil
}

// vxApplyRule derives the head facts of one rule once; returns whether something new was added.
func (r *vxRef) vxApplyRule(c ast.Clause) (changed bool, unsafe bool) {
	envs, unsafe := r.vxSolve(c.Premises, []vxEnv{nil})
	if unsafe {
		return false, true
	}
	if c.Transform != nil && !c.Transform.IsLetTransform() {
		return r.vxApplyDo(c, envs), false
	}
	for _, e := range envs {
		ok := true
		if c.Transform != nil {
			for tr := c.Transform; tr != nil && ok; tr = tr.Next {
				for _, st := range tr.Statements {
					v, err := vxEvalTerm(st.Fn, e)
					if err != nil {
						r.noteErr(err)
						ok = false
						break
					}
					e = e.with(st.Var.Symbol, v)
				}
			}
		}
		if !ok {
			continue
		}
		t, err := vxHeadTuple(c.Head, e)
		if err != nil {
			r.noteErr(err)
			continue
		}
		if r.add(c.Head.Predicate, t) {
			changed = true
		}
	}
	return changed, false
}

// vxApplyDo evaluates a do-transform (group_by + reducers) with independent folds.
func (r *vxRef) vxApplyDo(c ast.Clause, envs []vxEnv) bool {
	stmts := c.Transform.Statements
	keyVars := stmts[0].Fn.Args
	type group struct {
		key  []ast.Constant
		rows []vxEnv
	}
	var groups []*group
	for _, e := range envs {
		key := make([]ast.Constant, len(keyVars))
		for i, k := range keyVars {
			key[i], _ = vxEvalTerm(k, e)
		}
		var g *group
		for _, x := range groups {
			if vxTupleEq(x.key, key) {
				g = x
				break
			}
		}
		if g == nil {
			g = &group{key: key}
			groups = append(groups, g)
		}
		g.rows = append(g.rows, e)
	}
	changed := false
	for _, g := range groups {
		var e vxEnv
		for i, k := range keyVars {
			e = e.with(k.(ast.Variable).Symbol, g.key[i])
		}
		ok := true
		for _, st := range stmts[1:] {
			v, err := vxFold(st.Fn, g.rows)
			if err != nil {
				r.noteErr(err)
				ok = false
				break
			}
			e = e.with(st.Var.Symbol, v)
		}
		if !ok {
			continue
		}
		t, err := vxHeadTuple(c.Head, e)
		if err != nil {
			r.noteErr(err)
			continue
		}
		if r.add(c.Head.Predicate, t) {
			changed = true
		}
	}
	return changed
}

// vxFold: independent reducers over integers.
func vxFold(fn ast.ApplyFn, rows []vxEnv) (ast.Constant, error) {
	vals := func() ([]int64, error) {
		var out []int64
		for _, e := range rows {
			c, err := vxEvalTerm(fn.Args[0], e)
			if err != nil {
				return nil, err
			}
			if c.Type != ast.NumberType {
				return nil, fmt.Errorf("vxFold: non-number")
			}
			out = append(out, c.NumValue)
		}
		return out, nil
	}
	switch fn.Function.Symbol {
	case symbols.Count.Symbol:
		return ast.Number(int64(len(rows))), nil
	case symbols.Sum.Symbol:
		vs, err := vals()
		if err != nil {
			return ast.Constant{}, err
		}
		var s int64
		for _, v := range vs {
			s += v
		}
		return ast.Number(s), nil
	case symbols.Min.Symbol, symbols.Max.Symbol:
		vs, err := vals()
		if err != nil {
			return ast.Constant{}, err
		}
		m := vs[0]
		for _, v := range vs[1:] {
			if (fn.Function.Symbol == symbols.Min.Symbol && v < m) || (fn.Function.Symbol == symbols.Max.Symbol && v > m) {
				m = v
			}
		}
		return ast.Number(m), nil
	}
	return ast.Constant{}, fmt.Errorf("vxFold: unsupported reducer %s", fn.Function.Symbol)
}

// vxStrata computes a stratum number per head predicate (negation and
// aggregation strictly increase); ok=false if not stratifiable.
func vxStrata(rules []ast.Clause) (map[ast.PredicateSym]int, bool) {
	idb := map[ast.PredicateSym]bool{}
	for _, c := range rules {
		idb[c.Head.Predicate] = true
	}
	s := map[ast.PredicateSym]int{}
	n := len(idb)
	for iter := 0; iter <= n*n+1; iter++ {
		changed := false
		for _, c := range rules {
			h := c.Head.Predicate
			agg := c.Transform != nil && !c.Transform.IsLetTransform()
			for _, t := range c.Premises {
				var q ast.PredicateSym
				neg := false
				switch p := t.(type) {
				case ast.Atom:
					q = p.Predicate
				case ast.NegAtom:
					q, neg = p.Atom.Predicate, true
				default:
					continue
				}
				if !idb[q] {
					continue
				}
				need := s[q]
				if neg || agg {
					need++
				}
				if s[h] < need {
					s[h] = need
					changed = true
				}
			}
		}
		if !changed {
			return s, true
		}
		for _, v := range s {
			if v > n {
				return nil, false
			}
		}
	}
	return nil, false
}

// vxRefEval evaluates rules over the facts already in r. Returns unsafe=true if some rule is unsafe.
func (r *vxRef) vxRefEval(rules []ast.Clause, maxRounds int) (unsafe bool, converged bool) {
	strata, ok := vxStrata(rules)
	if !ok {
		r.err = fmt.Errorf("not stratifiable")
		return false, false
	}
	maxS := 0
	for _, v := range strata {
		if v > maxS {
			maxS = v
		}
	}
	for lvl := 0; lvl <= maxS; lvl++ {
		// non-aggregating rules to fixpoint, then aggregating rules of this level once
		for round := 0; ; round++ {
			if round > maxRounds {
				return false, false
			}
			changed := false
			for _, c := range rules {
				if strata[c.Head.Predicate] != lvl || (c.Transform != nil && !c.Transform.IsLetTransform()) {
					continue
				}
				ch, us := r.vxApplyRule(c)
				if us {
					return true, false
				}
				changed = changed || ch
			}
			if !changed {
				break
			}
		}
		for _, c := range rules {
			if strata[c.Head.Predicate] == lvl && c.Transform != nil && !c.Transform.IsLetTransform() {
				if _, us := r.vxApplyRule(c); us {
					return true, false
				}
			}
		}
	}
	return false, true
}

// ---- comparing a fact store with the reference ----

func vxStoreFacts(store factstore.ReadOnlyFactStore, p ast.PredicateSym) [][]ast.Constant {
	var out [][]ast.Constant
	store.GetFacts(ast.NewQuery(p), func(a ast.Atom) error {
		t := make([]ast.Constant, len(a.Args))
		for i, x := range a.Args {
			c, ok := x.(ast.Constant)
			if !ok {
				t = nil
				break
			}
			t[i] = c
		}
		out = append(out, t)
		return nil
	})
	return out
}

// vxCompare asserts store == reference on the given predicates (both inclusions, no duplicates, ground).
func vxCompare(store factstore.ReadOnlyFactStore, r *vxRef, preds []ast.PredicateSym, label string) {
	for _, p := range preds {
		got := vxStoreFacts(store, p)
		want := r.facts[p]
		for _, t := range got {
			vxAssert(t != nil, label+":ground")
		}
		for _, w := range want {
			args := make([]ast.BaseTerm, len(w))
			for i := range w {
				args[i] = w[i]
			}
			vxAssert(store.Contains(ast.Atom{Predicate: p, Args: args}), label+":complete("+p.Symbol+")")
			n := 0
			for _, g := range got {
				if vxTupleEq(g, w) {
					n++
				}
			}
			vxAssert(n == 1, label+":listed-once("+p.Symbol+")")
		}
		for _, g := range got {
			found := false
			for _, w := range want {
				if vxTupleEq(g, w) {
					found = true
				}
			}
			vxAssert(found, label+":sound("+p.Symbol+")")
		}
	}
}
