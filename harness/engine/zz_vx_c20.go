package engine

// C20: the naive and the semi-naive evaluator finish with equal stores.

import (
	"codeberg.org/TauCeti/mangle-go/ast"
	"codeberg.org/TauCeti/mangle-go/factstore"
)

// VxC20Diff runs both evaluators from equal stores in the same path and compares the results.
func VxC20Diff() {
	t := vxTemplateFor(vxParam("TPL", 0))
	k := vxParam("K", 2)
	naive := factstore.NewSimpleInMemoryStore()
	semi := factstore.NewSimpleInMemoryStore()
	vxFillFacts(t, k, &naive, nil)
	vxFillFacts(t, k, &semi, nil)
	pi, err := vxAnalyze(t)
	vxAssert(err == nil, "analysis-accepts-template")
	err = EvalProgram(pi, &semi)
	if t.gen && err != nil {
		// unstratifiable generated program: both evaluators must refuse it
		vxReach("both-evaluated")
		vxAssert(EvalProgramNaive(t.rules, naive) != nil, "naive-rejects-what-seminaive-rejects")
		return
	}
	vxAssert(err == nil, "seminaive-no-error")
	err = EvalProgramNaive(t.rules, naive)
	vxReach("both-evaluated")
	vxAssert(err == nil, "naive-no-error")
	preds := append(append([]ast.PredicateSym{}, t.edb...), t.idb...)
	for _, p := range preds {
		a := vxStoreFacts(&naive, p)
		b := vxStoreFacts(&semi, p)
		for _, x := range a {
			found := false
			for _, y := range b {
				if vxTupleEq(x, y) {
					found = true
				}
			}
			vxAssert(found, "naive-subset-of-seminaive("+p.Symbol+")")
		}
		for _, y := range b {
			found := false
			for _, x := range a {
				if vxTupleEq(x, y) {
					found = true
				}
			}
			vxAssert(found, "seminaive-subset-of-naive("+p.Symbol+")")
		}
	}
}
