package engine

// C14: temporal operators, interval annotations and interval relations mean what the documentation says.

import (
	"fmt"
	"time"

	"codeberg.org/TauCeti/mangle-go/ast"
	"codeberg.org/TauCeti/mangle-go/builtin"
	"codeberg.org/TauCeti/mangle-go/factstore"
	"codeberg.org/TauCeti/mangle-go/symbols"
	"codeberg.org/TauCeti/mangle-go/unionfind"
)

type vxSpan struct{ s, e int64 }

const vxTimeLim = int64(1) << 60

// vxTemporalFacts stores N intervals of atom p(1) (symbolic end points), coalesces, and returns what is stored.
func vxTemporalFacts(n int) (*factstore.TemporalStore, ast.Atom, []vxSpan) {
	store := factstore.NewTemporalStore()
	atom := ast.NewAtom("p", ast.Number(1))
	raw := vxParam("RAW", 0) == 1
	overlapping := vxParam("RAW", 0) == 2 // arbitrary (nested, overlapping, equal) intervals, no Coalesce: diamond operators only
	var in []vxSpan
	for i := 0; i < n; i++ {
		s, e := vxInt64(fmt.Sprintf("s%d", i)), vxInt64(fmt.Sprintf("e%d", i))
		vxAssume(s <= e && s > -vxTimeLim && e < vxTimeLim)
		if raw {
			// no Coalesce call below: the intervals are pairwise disjoint and non-adjacent, so the
			// store is coalesced as inserted (in any order)
			for _, o := range in {
				vxAssume(e+1 < o.s || o.e+1 < s)
			}
		}
		in = append(in, vxSpan{s, e})
	}
	for _, iv := range in {
		store.Add(atom, ast.Interval{Start: ast.TemporalBound{Type: ast.TimestampBound, Timestamp: iv.s}, End: ast.TemporalBound{Type: ast.TimestampBound, Timestamp: iv.e}})
	}
	if raw {
		return store, atom, in
	}
	if !overlapping {
		store.Coalesce(atom.Predicate)
	}
	var stored []vxSpan
	store.GetAllFacts(ast.NewQuery(atom.Predicate), func(tf factstore.TemporalFact) error {
		stored = append(stored, vxSpan{tf.Interval.Start.Timestamp, tf.Interval.End.Timestamp})
		return nil
	})
	return store, atom, stored
}

func vxDur(d int64) ast.TemporalBound {
	return ast.TemporalBound{Type: ast.DurationTemporalBound, Timestamp: d}
}

// VxC14Operators: diamond/box, past/future, over a coalesced store of N intervals, symbolic evaluation time and window.
func VxC14Operators() {
	n := vxParam("N", 2)
	op := vxChoose("operator", 4)
	if vxParam("RAW", 0) == 2 {
		// a store that is not coalesced: "holds at some instant of the window" is still well defined
		vxAssume(op == 0 || op == 2)
	}
	store, atom, stored := vxTemporalFacts(n)
	T := vxInt64("T")
	d1, d2 := vxInt64("d1"), vxInt64("d2")
	vxAssume(T > -vxTimeLim && T < vxTimeLim && d1 >= 0 && d1 <= d2 && d2 < vxTimeLim)
	var start, end ast.TemporalBound = vxDur(d1), vxDur(d2)
	if vxParam("NOW", 0) == 1 {
		// 'now' as the near bound: same as a zero duration
		vxAssume(d1 == 0)
		start = ast.Now()
	}
	types := []ast.TemporalOperatorType{ast.DiamondMinus, ast.BoxMinus, ast.DiamondPlus, ast.BoxPlus}
	tl := ast.TemporalLiteral{
		Literal:  ast.NewAtom("p", ast.Variable{Symbol: "X"}),
		Operator: &ast.TemporalOperator{Type: types[op], Interval: ast.Interval{Start: start, End: end}},
	}
	te := NewTemporalEvaluator(store, time.Unix(0, T))
	sols, err := te.EvalTemporalLiteral(tl, unionfind.New())
	vxReach("evaluated")
	vxObserve("solutions", len(sols))
	vxAssert(err == nil, "operator-no-error")
	// documented window: measured back from (past) / forward from (future) the evaluation time
	var lo, hi int64
	if op < 2 {
		lo, hi = T-d2, T-d1
	} else {
		lo, hi = T+d1, T+d2
	}
	want := 0
	for _, iv := range stored {
		if op == 0 || op == 2 { // diamond: holds at some instant of the window
			if iv.s <= hi && lo <= iv.e {
				want++
			}
		} else { // box: holds throughout the window
			if iv.s <= lo && hi <= iv.e {
				want++
			}
		}
	}
	vxAssert((len(sols) > 0) == (want > 0), "operator-succeeds-iff-documented")
	vxAssert(len(sols) == want, "one-solution-per-qualifying-interval")
	for _, s := range sols {
		vxAssert(s.Get(ast.Variable{Symbol: "X"}).Equals(atom.Args[0]), "solution-binds-atom-argument")
	}
}

// VxC14Annotation: an interval annotation with variables enumerates exactly the stored intervals.
func VxC14Annotation() {
	n := vxParam("N", 2)
	store, _, stored := vxTemporalFacts(n)
	T := vxInt64("T")
	vxAssume(T > -vxTimeLim && T < vxTimeLim)
	S, E := ast.Variable{Symbol: "S"}, ast.Variable{Symbol: "E"}
	tl := ast.TemporalLiteral{
		Literal:  ast.NewAtom("p", ast.Variable{Symbol: "X"}),
		Interval: &ast.Interval{Start: ast.TemporalBound{Type: ast.VariableBound, Variable: S}, End: ast.TemporalBound{Type: ast.VariableBound, Variable: E}},
	}
	te := NewTemporalEvaluator(store, time.Unix(0, T))
	sols, err := te.EvalTemporalLiteral(tl, unionfind.New())
	vxReach("annotated")
	vxAssert(err == nil, "annotation-no-error")
	vxAssert(len(sols) == len(stored), "one-solution-per-stored-interval")
	for _, iv := range stored {
		c := 0
		for _, s := range sols {
			if s.Get(S).Equals(ast.Time(iv.s)) && s.Get(E).Equals(ast.Time(iv.e)) {
				c++
			}
		}
		vxAssert(c == 1, "interval-variables-bound-to-end-points")
	}
}

// VxC14Relations: the nine interval relations on closed intervals, and their converse pairs.
func VxC14Relations() {
	s1, e1, s2, e2 := vxInt64("s1"), vxInt64("e1"), vxInt64("s2"), vxInt64("e2")
	vxAssume(s1 <= e1 && s2 <= e2)
	mk := func(s, e int64) ast.Constant {
		a, b := ast.Number(s), ast.Number(e)
		return ast.Pair(&a, &b)
	}
	i1, i2 := mk(s1, e1), mk(s2, e2)
	dec := func(p ast.PredicateSym, a, b ast.Constant) bool {
		uf := unionfind.New()
		ok, _, err := builtin.Decide(ast.Atom{Predicate: p, Args: []ast.BaseTerm{a, b}}, &uf)
		vxAssert(err == nil, "relation-no-error")
		return ok
	}
	vxReach("relations")
	vxAssert(dec(symbols.IntervalBefore, i1, i2) == (e1 < s2), "before")
	vxAssert(dec(symbols.IntervalAfter, i1, i2) == (s1 > e2), "after")
	vxAssert(dec(symbols.IntervalMeets, i1, i2) == (e1 == s2), "meets")
	vxAssert(dec(symbols.IntervalOverlaps, i1, i2) == (s1 <= e2 && s2 <= e1), "overlaps")
	vxAssert(dec(symbols.IntervalDuring, i1, i2) == (s1 >= s2 && e1 <= e2), "during")
	vxAssert(dec(symbols.IntervalContains, i1, i2) == (s2 >= s1 && e2 <= e1), "contains")
	vxAssert(dec(symbols.IntervalStarts, i1, i2) == (s1 == s2), "starts")
	vxAssert(dec(symbols.IntervalFinishes, i1, i2) == (e1 == e2), "finishes")
	vxAssert(dec(symbols.IntervalEquals, i1, i2) == (s1 == s2 && e1 == e2), "equals")
	// converse pairs
	vxAssert(dec(symbols.IntervalBefore, i1, i2) == dec(symbols.IntervalAfter, i2, i1), "before-after-converse")
	vxAssert(dec(symbols.IntervalDuring, i1, i2) == dec(symbols.IntervalContains, i2, i1), "during-contains-converse")
	vxAssert(dec(symbols.IntervalOverlaps, i1, i2) == dec(symbols.IntervalOverlaps, i2, i1), "overlaps-symmetric")
}

func vxTemporalDecl(sym string, arity int) ast.Decl {
	args := make([]ast.BaseTerm, arity)
	for i := range args {
		args[i] = ast.Variable{Symbol: fmt.Sprintf("A%d", i)}
	}
	d, _ := ast.NewDecl(ast.Atom{Predicate: ast.PredicateSym{Symbol: sym, Arity: arity}, Args: args},
		[]ast.Atom{ast.NewAtom(ast.DescrDoc, ast.String("")), ast.NewAtom(ast.DescrTemporal)}, nil, nil)
	return d
}

// VxC14Program: one- and two-rule temporal programs through analysis + EvalProgram with a temporal store.
//
//	PROG 0:  q(X)@[S,E] :- p(X)@[S,E].                    (annotation propagates stored intervals)
//	PROG 1:  r(X)@[now] :- <-[d1,d2] p(X).                 (past diamond, head stored at the evaluation instant)
//	PROG 2:  q(X)@[S,E] :- p(X)@[S,E].  r(X)@[now] :- [-[d1,d2] q(X).   (two rules, box over a derived temporal predicate)
func VxC14Program() {
	prog := vxParam("PROG", 0)
	n := vxParam("N", 2)
	store, _, stored := vxTemporalFacts(n)
	T := vxInt64("T")
	vxAssume(T > -vxTimeLim && T < vxTimeLim)
	d1, d2 := int64(0), int64(0)
	if prog > 0 {
		d1, d2 = vxInt64("d1"), vxInt64("d2")
		vxAssume(d1 >= 0 && d1 <= d2 && d2 < vxTimeLim)
	}
	X, S, E := ast.Variable{Symbol: "X"}, ast.Variable{Symbol: "S"}, ast.Variable{Symbol: "E"}
	vb := func(v ast.Variable) ast.TemporalBound { return ast.TemporalBound{Type: ast.VariableBound, Variable: v} }
	copyRule := ast.Clause{
		Head:     ast.NewAtom("q", X),
		HeadTime: &ast.Interval{Start: vb(S), End: vb(E)},
		Premises: []ast.Term{ast.TemporalLiteral{Literal: ast.NewAtom("p", X), Interval: &ast.Interval{Start: vb(S), End: vb(E)}}},
	}
	opRule := func(tp ast.TemporalOperatorType, pred string) ast.Clause {
		return ast.Clause{
			Head:     ast.NewAtom("r", X),
			HeadTime: &ast.Interval{Start: ast.Now(), End: ast.Now()},
			Premises: []ast.Term{ast.TemporalLiteral{Literal: ast.NewAtom(pred, X),
				Operator: &ast.TemporalOperator{Type: tp, Interval: ast.Interval{Start: vxDur(d1), End: vxDur(d2)}}}},
		}
	}
	var rules []ast.Clause
	switch prog {
	case 0:
		rules = []ast.Clause{copyRule}
	case 1:
		rules = []ast.Clause{opRule(ast.DiamondMinus, "p")}
	case 2:
		rules = []ast.Clause{copyRule, opRule(ast.BoxMinus, "q")}
	case 4: // head annotation with one fixed and one variable bound: q(X)@[t0, E] :- p(X)@[S, E].
		t0 := ast.TemporalBound{Type: ast.TimestampBound, Timestamp: -vxTimeLim}
		rules = []ast.Clause{{
			Head:     ast.NewAtom("q", X),
			HeadTime: &ast.Interval{Start: t0, End: vb(E)},
			Premises: []ast.Term{ast.TemporalLiteral{Literal: ast.NewAtom("p", X), Interval: &ast.Interval{Start: vb(S), End: vb(E)}}},
		}}
	case 3: // chain of annotated rules p -> q -> c -> d (written in reverse order), any map order
		cp := func(h, b string) ast.Clause {
			return ast.Clause{
				Head:     ast.NewAtom(h, X),
				HeadTime: &ast.Interval{Start: vb(S), End: vb(E)},
				Premises: []ast.Term{ast.TemporalLiteral{Literal: ast.NewAtom(b, X), Interval: &ast.Interval{Start: vb(S), End: vb(E)}}},
			}
		}
		rules = []ast.Clause{cp("d", "c"), cp("c", "q"), copyRule}
		vxMapOrder(vxParam("ORDER", 0))
	}
	decls := map[ast.PredicateSym]ast.Decl{}
	for _, nm := range []string{"p"} {
		d := vxTemporalDecl(nm, 1)
		decls[d.DeclaredAtom.Predicate] = d
	}
	pi, err := analysisAnalyze(rules, decls)
	if err != nil {
		vxObserve("analysis-error", err.Error())
	}
	vxAssert(err == nil, "analysis-accepts-temporal-program")
	plain := factstore.NewSimpleInMemoryStore()
	err = EvalProgram(pi, &plain, WithTemporalStore(store), WithEvaluationTime(time.Unix(0, T)))
	vxReach("program-evaluated")
	vxAssert(err == nil, "temporal-eval-no-error")
	spans := func(pred string) []vxSpan {
		var out []vxSpan
		store.GetAllFacts(ast.NewQuery(ast.PredicateSym{Symbol: pred, Arity: 1}), func(tf factstore.TemporalFact) error {
			out = append(out, vxSpan{factstore.GetStartTime(tf.Interval), factstore.GetEndTime(tf.Interval)})
			return nil
		})
		return out
	}
	sameSpans := func(a, b []vxSpan) bool {
		if len(a) != len(b) {
			return false
		}
		for _, x := range a {
			c := 0
			for _, y := range b {
				if x == y {
					c++
				}
			}
			if c != 1 {
				return false
			}
		}
		return true
	}
	vxMapOrder(0)
	if prog == 0 || prog == 2 || prog == 3 {
		vxAssert(sameSpans(spans("q"), stored), "head-annotation-stores-exactly-the-bound-intervals")
	}
	if prog == 4 {
		var want []vxSpan
		for _, iv := range stored {
			want = append(want, vxSpan{-vxTimeLim, iv.e})
		}
		vxAssert(sameSpans(spans("q"), want), "head-annotation-resolved-per-solution")
	}
	if prog == 3 {
		vxAssert(sameSpans(spans("c"), stored) && sameSpans(spans("d"), stored), "chained-temporal-rules-propagate-every-interval")
	}
	if prog == 1 || prog == 2 {
		holds := false
		for _, iv := range stored {
			if prog == 1 && iv.s <= T-d1 && T-d2 <= iv.e {
				holds = true
			}
			if prog == 2 && iv.s <= T-d2 && T-d1 <= iv.e {
				holds = true
			}
		}
		r := spans("r")
		if holds {
			vxAssert(len(r) == 1 && r[0] == (vxSpan{T, T}), "head-now-stores-the-evaluation-instant")
		} else {
			vxAssert(len(r) == 0, "operator-rule-derives-nothing-when-it-does-not-hold")
		}
	}
}
