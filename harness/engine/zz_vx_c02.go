package engine

// C02: each aggregating rule reduces exactly its own body's solution set.

import (
	"fmt"

	"codeberg.org/TauCeti/mangle-go/ast"
	"codeberg.org/TauCeti/mangle-go/factstore"
	"codeberg.org/TauCeti/mangle-go/symbols"
)

func vxDo(c ast.Clause, keys []string, lets ...ast.TransformStmt) ast.Clause {
	ks := make([]any, len(keys))
	for i, k := range keys {
		ks[i] = k
	}
	stmts := append([]ast.TransformStmt{vxStmt("", vxFn(symbols.GroupBy, ks...))}, lets...)
	c.Transform = &ast.Transform{Statements: stmts}
	return c
}

func vxAggTemplates() []vxTemplate {
	sum := func(v string) ast.ApplyFn { return vxFn(symbols.Sum, v) }
	return []vxTemplate{
		{ // 0: single-atom body
			name: "single-atom",
			rules: []ast.Clause{
				vxDo(vxRule(vxA("r", "K", "S", "C"), vxA("a", "K", "V")), []string{"K"},
					vxStmt("S", sum("V")), vxStmt("C", vxFn(symbols.Count))),
			},
			edb: []ast.PredicateSym{vxP("a", 2)}, idb: []ast.PredicateSym{vxP("r", 3)},
		},
		{ // 1: two-atom body (hidden intermediate relation)
			name: "two-atom",
			rules: []ast.Clause{
				vxDo(vxRule(vxA("r", "K", "S"), vxA("a", "K", "V"), vxA("b", "K", "W")), []string{"K"},
					vxStmt("S", sum("V"))),
			},
			edb: []ast.PredicateSym{vxP("a", 2), vxP("b", 2)}, idb: []ast.PredicateSym{vxP("r", 2)},
		},
		{ // 2: two multi-atom aggregating rules with the same head
			name: "two-rules-same-head",
			rules: []ast.Clause{
				vxDo(vxRule(vxA("r", "K", "S"), vxA("a", "K", "V"), vxA("b", "K", "W")), []string{"K"},
					vxStmt("S", sum("V"))),
				vxDo(vxRule(vxA("r", "K", "S"), vxA("c", "K", "V"), vxA("d", "K", "W")), []string{"K"},
					vxStmt("S", sum("V"))),
			},
			edb: []ast.PredicateSym{vxP("a", 2), vxP("b", 2), vxP("c", 2), vxP("d", 2)}, idb: []ast.PredicateSym{vxP("r", 2)},
		},
		{ // 3: aggregation over a recursive predicate of a lower stratum
			name: "over-recursive",
			rules: []ast.Clause{
				vxRule(vxA("p", "X", "Y"), vxA("a", "X", "Y")),
				vxRule(vxA("p", "X", "Z"), vxA("a", "X", "Y"), vxA("p", "Y", "Z")),
				vxDo(vxRule(vxA("cnt", "X", "C", "M"), vxA("p", "X", "Y")), []string{"X"},
					vxStmt("C", vxFn(symbols.Count)), vxStmt("M", vxFn(symbols.Max, "Y"))),
			},
			edb: []ast.PredicateSym{vxP("a", 2)}, idb: []ast.PredicateSym{vxP("p", 2), vxP("cnt", 3)},
		},
		{ // 4: group_by() with no key, min and max
			name: "no-key-min-max",
			rules: []ast.Clause{
				vxDo(vxRule(vxA("tot", "S", "Lo", "Hi"), vxA("a", "K", "V")), nil,
					vxStmt("S", sum("V")), vxStmt("Lo", vxFn(symbols.Min, "V")), vxStmt("Hi", vxFn(symbols.Max, "V"))),
			},
			edb: []ast.PredicateSym{vxP("a", 2)}, idb: []ast.PredicateSym{vxP("tot", 3)},
		},
		{ // 5: single-atom body with a constant (selection), two rules with different selections
			name: "selection-in-body",
			rules: []ast.Clause{
				vxDo(vxRule(vxA("sel", "S"), vxA("a", 1, "V")), nil, vxStmt("S", sum("V"))),
				vxDo(vxRule(vxA("sel2", "C"), vxA("a", 2, "V")), nil, vxStmt("C", vxFn(symbols.Count))),
			},
			edb: []ast.PredicateSym{vxP("a", 2)}, idb: []ast.PredicateSym{vxP("sel", 1), vxP("sel2", 1)},
		},
	}
}

// VxC02Agg: group keys are small symbolic numbers (0..9: printed keys have one digit),
// aggregated values arbitrary int64.
func VxC02Agg() {
	t := vxAggTemplates()[vxParam("TPL", 0)]
	k := vxParam("K", 3)
	var store factstore.FactStore
	if vxParam("KKINDS", 1) > 1 {
		// bucketed store: hash-equal atoms of different kinds are both kept (the hash-keyed
		// stores conflate them: known finding of C06, not this property's subject)
		store = factstore.NewMultiIndexedArrayInMemoryStore()
	} else {
		base := factstore.NewSimpleInMemoryStore()
		store = &base
	}
	ref := vxNewRef()
	for i := 0; i < k; i++ {
		p := t.edb[i%len(t.edb)]
		key := vxInt64(fmt.Sprintf("k%d", i))
		vxAssume(key >= 0 && key < int64(vxParam("KEYS", 10)))
		val := vxInt64(fmt.Sprintf("v%d", i))
		kc := ast.Number(key)
		if vxParam("KKINDS", 1) > 1 && vxChoose(fmt.Sprintf("kk%d", i), 2) == 1 {
			// group keys of different kinds with equal hashes (5 and 5ns) are different groups
			kc = ast.Duration(key)
			vxTag("mixed-kind-keys")
		}
		a := ast.Atom{Predicate: p, Args: []ast.BaseTerm{kc, ast.Number(val)}}
		store.Add(a)
		ref.addAtom(a)
	}
	pi, err := vxAnalyze(t)
	vxAssert(err == nil, "analysis-accepts-template")
	err = EvalProgram(pi, store)
	vxReach("evaluated")
	vxObserve("eval-error", err != nil)
	vxObserve("facts-after-eval", store.EstimateFactCount())
	vxAssert(err == nil, "eval-no-error")
	unsafe, conv := ref.vxRefEval(t.rules, 30)
	vxAssert(!unsafe && conv && ref.err == nil, "reference-evaluates")
	vxCompare(store, ref, t.idb, "agg")
}
