package engine

// C11: facts of declared predicates conform to their declared bounds.

import (
	"fmt"

	"codeberg.org/TauCeti/mangle-go/analysis"
	"codeberg.org/TauCeti/mangle-go/ast"
	"codeberg.org/TauCeti/mangle-go/builtin"
	"codeberg.org/TauCeti/mangle-go/factstore"
	"codeberg.org/TauCeti/mangle-go/parse"
	"codeberg.org/TauCeti/mangle-go/symbols"
)

func vxDecl(sym string, rows ...[]ast.BaseTerm) ast.Decl {
	arity := len(rows[0])
	args := make([]ast.BaseTerm, arity)
	for i := range args {
		args[i] = ast.Variable{Symbol: fmt.Sprintf("A%d", i)}
	}
	var bounds []ast.BoundDecl
	for _, r := range rows {
		bounds = append(bounds, ast.BoundDecl{Bounds: r})
	}
	d, err := ast.NewDecl(ast.Atom{Predicate: ast.PredicateSym{Symbol: sym, Arity: arity}, Args: args}, nil, bounds, nil)
	if err != nil {
		panic(err)
	}
	return d
}

func vxNameC(s string) ast.Constant { c, _ := ast.Name(s); return c }

// bound types by case index
func vxBoundType(id string) ast.BaseTerm {
	switch vxChoose(id, 10) {
	case 0:
		return ast.NumberBound
	case 1:
		return ast.StringBound
	case 2:
		return ast.NameBound
	case 3:
		return vxNameC("/a")
	case 4:
		if vxParam("PARSED", 0) == 1 {
			// the shape the parser gives to fn:Union(/number, /string): arity = number of arguments
			return ast.ApplyFn{Function: ast.FunctionSym{Symbol: symbols.UnionType.Symbol, Arity: 2}, Args: []ast.BaseTerm{ast.NumberBound, ast.StringBound}}
		}
		return symbols.NewUnionType(ast.NumberBound, ast.StringBound)
	case 5:
		return ast.AnyBound
	case 6:
		return symbols.NewSingletonType(vxNameC("/a/b"))
	case 7:
		return symbols.NewUnionType(vxNameC("/a"), vxNameC("/b"))
	case 8:
		return vxNameC("/b")
	}
	return vxNameC("/ab")
}

// base-fact constants: number (symbolic), one-byte string (symbolic), names from a list with prefix pairs
func vxFactConst(id string) ast.Constant {
	switch vxChoose(id+"_k", 3) {
	case 0:
		return ast.Number(vxInt64(id + "_n"))
	case 1:
		return ast.String(vxString(id+"_s", 1))
	}
	return vxNameC([]string{"/a", "/a/b", "/ab", "/ab/c", "/b", "/a/c", "/a/b/x", "/b/x"}[vxChoose(id+"_nm", 8)])
}

// VxC11Bounds: program template TPL with declarations whose bound types are chosen per case index,
// base facts with symbolic payloads; accepted in error mode implies every stored fact of a declared
// predicate passes the run-time type check.
func VxC11Bounds() {
	tpl := vxParam("TPL", 0)
	nfacts := vxParam("F", 2)
	X, Y := ast.Variable{Symbol: "X"}, ast.Variable{Symbol: "Y"}
	var decls []ast.Decl
	var clauses []ast.Clause
	fact1 := func(pred string) {
		for i := 0; i < nfacts; i++ {
			clauses = append(clauses, ast.Clause{Head: vxA(pred, vxFactConst(fmt.Sprintf("%s%d", pred, i)))})
		}
	}
	switch tpl {
	case 0: // copy
		decls = []ast.Decl{vxDecl("src", []ast.BaseTerm{vxBoundType("b_src")}), vxDecl("out", []ast.BaseTerm{vxBoundType("b_out")})}
		fact1("src")
		clauses = append(clauses, vxRule(vxA("out", X), vxA("src", X)))
	case 1: // a predicate with two alternative rows used as a filter on an /any variable
		decls = []ast.Decl{vxDecl("src", []ast.BaseTerm{ast.AnyBound}),
			vxDecl("kind", []ast.BaseTerm{vxBoundType("b_k1")}, []ast.BaseTerm{vxBoundType("b_k2")}),
			vxDecl("out", []ast.BaseTerm{vxBoundType("b_out")})}
		fact1("src")
		fact1("kind")
		clauses = append(clauses, vxRule(vxA("out", X), vxA("src", X), vxA("kind", X)))
	case 2: // construct a pair
		b := vxBoundType("b_src")
		decls = []ast.Decl{vxDecl("src", []ast.BaseTerm{b}), vxDecl("out", []ast.BaseTerm{symbols.NewPairType(vxBoundType("b_l"), vxBoundType("b_r"))})}
		fact1("src")
		clauses = append(clauses, vxRule(vxA("out", "P"), vxA("src", X), vxA("src", Y), ast.Eq{Left: ast.Variable{Symbol: "P"}, Right: vxFn(symbols.Pair, X, Y)}))
	case 3: // projection of a binary predicate
		decls = []ast.Decl{vxDecl("src2", []ast.BaseTerm{vxBoundType("b_1"), vxBoundType("b_2")}), vxDecl("out", []ast.BaseTerm{vxBoundType("b_out")})}
		for i := 0; i < nfacts; i++ {
			clauses = append(clauses, ast.Clause{Head: vxA("src2", vxFactConst(fmt.Sprintf("l%d", i)), vxFactConst(fmt.Sprintf("r%d", i)))})
		}
		clauses = append(clauses, vxRule(vxA("out", Y), vxA("src2", X, Y)))
	case 4: // arithmetic
		decls = []ast.Decl{vxDecl("src", []ast.BaseTerm{vxBoundType("b_src")}), vxDecl("out", []ast.BaseTerm{vxBoundType("b_out")})}
		fact1("src")
		clauses = append(clauses, vxRule(vxA("out", Y), vxA("src", X), ast.Eq{Left: Y, Right: vxFn(symbols.Plus, X, 1)}))
	case 5: // name-prefix filter
		decls = []ast.Decl{vxDecl("src", []ast.BaseTerm{vxBoundType("b_src")}), vxDecl("out", []ast.BaseTerm{vxBoundType("b_out")})}
		fact1("src")
		clauses = append(clauses, vxRule(vxA("out", X), vxA("src", X), vxA(":match_prefix", X, vxNameC("/a"))))
	case 6: // construct a list
		decls = []ast.Decl{vxDecl("src", []ast.BaseTerm{vxBoundType("b_src")}), vxDecl("out", []ast.BaseTerm{symbols.NewListType(vxBoundType("b_e"))})}
		fact1("src")
		clauses = append(clauses, vxRule(vxA("out", "L"), vxA("src", X), ast.Eq{Left: ast.Variable{Symbol: "L"}, Right: vxFn(symbols.List, X, X)}))
	case 8: // negated name-prefix filter: narrows a union-typed variable
		decls = []ast.Decl{vxDecl("src", []ast.BaseTerm{vxBoundType("b_src")}), vxDecl("out", []ast.BaseTerm{vxBoundType("b_out")})}
		fact1("src")
		clauses = append(clauses, vxRule(vxA("out", X), vxA("src", X), vxNot(vxA(":match_prefix", X, vxNameC([]string{"/a", "/a/b"}[vxChoose("neg_prefix", 2)])))))
	case 7: // a declared predicate with both base facts and a rule
		decls = []ast.Decl{vxDecl("src", []ast.BaseTerm{vxBoundType("b_src")}), vxDecl("out", []ast.BaseTerm{vxBoundType("b_out")})}
		fact1("src")
		fact1("out")
		clauses = append(clauses, vxRule(vxA("out", X), vxA("src", X)))
	}
	unit := parse.SourceUnit{Decls: decls, Clauses: clauses}
	pi, err := analysis.AnalyzeAndCheckBounds([]parse.SourceUnit{unit}, nil, analysis.ErrorForBoundsMismatch)
	vxReach("analysed")
	if err != nil {
		return // rejected: nothing is promised
	}
	store := factstore.NewSimpleInMemoryStore()
	err = EvalProgram(pi, &store)
	vxAssert(err == nil, "accepted-program-evaluates")
	vxReach("accepted-and-evaluated")
	tc := builtin.NewTypeCheckerFromDesugared(pi.Decls)
	for _, d := range decls {
		p := d.DeclaredAtom.Predicate
		var facts []ast.Atom
		store.GetFacts(ast.NewQuery(p), func(a ast.Atom) error { facts = append(facts, a); return nil })
		for _, f := range facts {
			vxAssert(tc.CheckTypeBounds(f) == nil, "stored-fact-conforms-to-declared-bounds("+p.Symbol+")")
		}
	}
}
