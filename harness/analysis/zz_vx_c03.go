package analysis

// C03: stratification respects every dependency or reports failure.
// The dependency graph is symbolic: predicates are p/a with a symbolic arity a,
// so node identity (hence the whole graph shape) is an equality pattern that the
// solver enumerates.

import (
	"fmt"

	"codeberg.org/TauCeti/mangle-go/ast"
	"codeberg.org/TauCeti/mangle-go/symbols"
)

const (
	vxKindPos = iota
	vxKindNeg
	vxKindAgg
	vxKindTemporalPos
	vxKindTemporalNeg
	vxKindTemporalAgg // aggregating rule whose body mentions the predicate inside a temporal literal
)

// VxC03Stratify: M rule slots "head_i :- body_i" with symbolic predicates and a kind per slot.
func VxC03Stratify() {
	m := vxParam("M", 3)
	nk := vxParam("KINDS", 3) // 3: pos/neg/agg, 5: also temporal literals, 6: also aggregation over a temporal literal
	vxMapOrder(vxParam("ORDER", 0))
	h := make([]int, m)
	b := make([]int, m)
	kind := make([]int, m)
	for i := 0; i < m; i++ {
		h[i] = vxInt(fmt.Sprintf("h%d", i))
		b[i] = vxInt(fmt.Sprintf("b%d", i))
		kind[i] = vxChoose(fmt.Sprintf("kind%d", i), nk)
		if kind[i] >= vxKindTemporalPos {
			vxTag("temporal-literal-edge")
		}
	}
	// decide all identities first (everything below is then concrete)
	all := append(append([]int{}, h...), b...)
	id := make([]int, 2*m) // canonical representative index
	for i := range all {
		id[i] = i
		for j := 0; j < i; j++ {
			if all[i] == all[j] {
				id[i] = id[j]
				break
			}
		}
	}
	hid := id[:m]
	bid := id[m:]
	isHead := func(x int) bool {
		for _, y := range hid {
			if x == y {
				return true
			}
		}
		return false
	}
	// build the program
	edb := map[ast.PredicateSym]struct{}{}
	idb := map[ast.PredicateSym]struct{}{}
	var rules []ast.Clause
	sym := func(a int) ast.PredicateSym { return ast.PredicateSym{Symbol: "p", Arity: a} }
	for i := 0; i < m; i++ {
		idb[sym(h[i])] = struct{}{}
	}
	for i := 0; i < m; i++ {
		if !isHead(bid[i]) {
			edb[sym(b[i])] = struct{}{}
		}
	}
	for i := 0; i < m; i++ {
		head := ast.Atom{Predicate: sym(h[i])}
		body := ast.Atom{Predicate: sym(b[i])}
		c := ast.Clause{Head: head}
		switch kind[i] {
		case vxKindPos:
			c.Premises = []ast.Term{body}
		case vxKindNeg:
			c.Premises = []ast.Term{ast.NegAtom{Atom: body}}
		case vxKindAgg:
			c.Premises = []ast.Term{body}
			c.Transform = &ast.Transform{Statements: []ast.TransformStmt{{Var: nil, Fn: ast.ApplyFn{Function: symbols.GroupBy}}}}
		case vxKindTemporalPos:
			c.Premises = []ast.Term{ast.TemporalLiteral{Literal: body}}
		case vxKindTemporalNeg:
			c.Premises = []ast.Term{ast.TemporalLiteral{Literal: ast.NegAtom{Atom: body}}}
		case vxKindTemporalAgg:
			c.Premises = []ast.Term{ast.TemporalLiteral{Literal: body}}
			c.Transform = &ast.Transform{Statements: []ast.TransformStmt{{Var: nil, Fn: ast.ApplyFn{Function: symbols.GroupBy}}}}
		}
		rules = append(rules, c)
	}
	strata, predToStratum, err := Stratify(Program{EdbPredicates: edb, IdbPredicates: idb, Rules: rules})
	vxReach("stratified")

	// oracle: reachability over slots (concrete after the identity decisions)
	neg := func(i int) bool { return kind[i] == vxKindNeg || kind[i] == vxKindAgg || kind[i] == vxKindTemporalNeg || kind[i] == vxKindTemporalAgg }
	// reach[x][y]: predicate x (a head id) depends on y transitively (x's rules mention ... y)
	reach := map[[2]int]bool{}
	for i := 0; i < m; i++ {
		if isHead(bid[i]) {
			reach[[2]int{hid[i], bid[i]}] = true
		}
	}
	for iter := 0; iter < 2*m; iter++ {
		for k1 := range reach {
			for k2 := range reach {
				if k1[1] == k2[0] {
					reach[[2]int{k1[0], k2[1]}] = true
				}
			}
		}
	}
	negCycle := false
	for i := 0; i < m; i++ {
		if neg(i) && isHead(bid[i]) && (bid[i] == hid[i] || reach[[2]int{bid[i], hid[i]}]) {
			negCycle = true
		}
	}
	vxAssert((err != nil) == negCycle, "fails-iff-negative-cycle")
	if err != nil {
		return
	}
	layer := func(a int) (int, bool) {
		l, ok := predToStratum[sym(a)]
		return l, ok
	}
	for i := 0; i < m; i++ {
		lh, ok := layer(h[i])
		vxAssert(ok, "head-has-layer")
		vxAssert(lh >= 0 && lh < len(strata), "layer-in-range")
		_, member := strata[lh][sym(h[i])]
		vxAssert(member, "strata-agree-with-map")
		if !isHead(bid[i]) {
			continue
		}
		lb, ok := layer(b[i])
		vxAssert(ok, "body-has-layer")
		if neg(i) {
			vxAssert(lb < lh, "negative-dependency-strictly-earlier")
		} else {
			vxAssert(lb <= lh, "dependency-not-later")
		}
		if reach[[2]int{bid[i], hid[i]}] || bid[i] == hid[i] {
			vxAssert(lb == lh, "mutually-recursive-share-layer")
		}
	}
	// every listed member is mapped to its layer, each predicate in exactly one layer
	total := 0
	for li, s := range strata {
		for p := range s {
			total++
			l, ok := predToStratum[p]
			vxAssert(ok && l == li, "member-mapped-to-its-layer")
		}
	}
	vxAssert(total == len(predToStratum), "each-predicate-in-one-layer")
}
