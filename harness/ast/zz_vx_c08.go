package ast

// C08: equality, hashing and printing of terms agree.

import (
	"unicode/utf8"
	"fmt"
	"math"
)

// vxStructEq: structural equality written here (field by field), independent of Constant.Equals.
func vxStructEq(a, b *Constant) bool {
	if a == nil || b == nil {
		return a == nil && b == nil
	}
	if a.Type != b.Type {
		return false
	}
	switch a.Type {
	case NameType, StringType, BytesType:
		return a.Symbol == b.Symbol
	case NumberType, Float64Type, TimeType, DurationType:
		return a.NumValue == b.NumValue
	}
	return vxStructEq(a.fst, b.fst) && vxStructEq(a.snd, b.snd)
}

var vxFloats = []float64{1.0, 1.5, 0.0, -2.0, 1e21, math.Copysign(0, -1), math.NaN()}

// leaf shapes: 0 number 1 duration 2 time 3 float (from a list) 4 one-byte string 5 name {/a,/b,/a/b} 6 one-byte bytes
func vxLeaf(id string, shapes []int, small bool) Constant {
	switch shapes[vxChoose(id+"_shape", len(shapes))] {
	case 0:
		v := vxInt64(id + "_n")
		if small {
			vxAssume(v >= 0 && v < 3)
		}
		return Number(v)
	case 1:
		v := vxInt64(id + "_n")
		if small {
			vxAssume(v >= 0 && v < 3)
		}
		return Duration(v)
	case 2:
		v := vxInt64(id + "_n")
		if small {
			vxAssume(v >= 0 && v < 3)
		}
		return Time(v)
	case 3:
		return Float64(vxFloats[vxChoose(id+"_f", len(vxFloats))])
	case 4:
		str := vxString(id+"_s", 1)
		if !utf8.ValidString(str) {
			// string constants are meant to hold UTF-8; the Go API accepts any bytes
			vxTag("invalid-utf8-string")
		}
		return String(str)
	case 5:
		c, _ := Name([]string{"/a", "/b", "/a/b"}[vxChoose(id+"_nm", 3)])
		return c
	case 6:
		return Bytes(vxBytes(id+"_b", 1))
	}
	panic("leaf")
}

// composite shapes over small leaves: 0 pair 1 list(0..2) 2 map(1..2 entries) 3 struct(1..2 fields) 4 leaf
func vxTermOf(id string, shape int, leaves []int) Constant {
	L := func(k int) Constant { return vxLeaf(fmt.Sprintf("%s_%d", id, k), leaves, shape != 4) }
	switch shape {
	case 0:
		a, b := L(0), L(1)
		return Pair(&a, &b)
	case 1:
		switch vxChoose(id+"_len", 3) {
		case 0:
			return ListNil
		case 1:
			return List([]Constant{L(0)})
		}
		return List([]Constant{L(0), L(1)})
	case 2:
		k0, v0 := L(0), L(1)
		if vxChoose(id+"_n", 2) == 0 {
			return *Map(map[*Constant]*Constant{&k0: &v0})
		}
		k1, v1 := L(2), L(3)
		vxAssume(!vxStructEq(&k0, &k1))
		if vxChoose(id+"_order", 2) == 0 {
			vxMapOrder(0)
		} else {
			vxMapOrder(1)
		}
		m := Map(map[*Constant]*Constant{&k0: &v0, &k1: &v1})
		vxMapOrder(0)
		return *m
	case 3:
		f1, _ := Name("/f1")
		f2, _ := Name("/f2")
		v0 := L(0)
		if vxChoose(id+"_n", 2) == 0 {
			return *Struct(map[*Constant]*Constant{&f1: &v0})
		}
		v1 := L(1)
		if vxChoose(id+"_order", 2) == 0 {
			vxMapOrder(0)
		} else {
			vxMapOrder(1)
		}
		s := Struct(map[*Constant]*Constant{&f1: &v0, &f2: &v1})
		vxMapOrder(0)
		return *s
	case 4:
		return L(0)
	}
	panic("term")
}

func vxLeafSet(code int) []int {
	switch code {
	case 0:
		return []int{0}
	case 1:
		return []int{0, 1, 2}
	case 2:
		return []int{0, 3}
	case 3:
		return []int{0, 4, 5, 6}
	case 4:
		return []int{0, 1, 2, 3, 4, 5, 6}
	}
	return []int{0}
}

// VxC08Pair: two terms of the same outer shape: Equals vs structural equality, symmetry, hash and print coherence.
func VxC08Pair() {
	shape := vxParam("SHAPE", 4)
	leaves := vxLeafSet(vxParam("LEAVES", 1))
	a := vxTermOf("a", shape, leaves)
	b := vxTermOf("b", shape, leaves)
	if vxParam("PRINT", 0) == 1 {
		// printed numbers: keep the decimal length small (symbolic formatting splits on the digit count)
		for _, t := range []Constant{a, b} {
			if t.Type == NumberType {
				vxAssume(t.NumValue > -100 && t.NumValue < 100)
			}
		}
	}
	eq := a.Equals(b)
	vxReach("compared")
	vxAssert(a.Equals(a) && b.Equals(b), "reflexive")
	vxAssert(eq == b.Equals(a), "symmetric")
	vxAssert(eq == vxStructEq(&a, &b), "equals-is-structural")
	if eq {
		vxAssert(a.Hash() == b.Hash(), "equal-implies-equal-hash")
	}
	if vxParam("PRINT", 0) == 1 {
		sa, sb := a.String(), b.String()
		if eq {
			vxAssert(sa == sb, "equal-implies-equal-print")
		}
		if sa == sb {
			if a.Type == Float64Type || b.Type == Float64Type {
				fa, fb := a, b
				if fa.Type != Float64Type {
					fa = b
				}
				_ = fb
				if f := math.Float64frombits(uint64(fa.NumValue)); f > -1e15 && f < 1e15 && f == float64(int64(f)) {
					vxTag("float-integral-print")
				}
			}
			vxAssert(eq, "equal-print-implies-equal")
		}
	}
	// atoms built from the terms
	pa, pb := NewAtom("p", a), NewAtom("p", b)
	vxAssert(pa.Equals(pb) == eq, "atom-equals")
	if eq {
		vxAssert(pa.Hash() == pb.Hash(), "atom-equal-hash")
	}
}

// VxC08Triple: transitivity over three terms.
func VxC08Triple() {
	shape := vxParam("SHAPE", 4)
	leaves := vxLeafSet(vxParam("LEAVES", 1))
	a := vxTermOf("a", shape, leaves)
	b := vxTermOf("b", shape, leaves)
	c := vxTermOf("c", shape, leaves)
	vxReach("triple")
	if a.Equals(b) && b.Equals(c) {
		vxAssert(a.Equals(c), "transitive")
	}
}

// VxC08MapOrder: maps/structs built from the same pairs in both supply orders are equal.
func VxC08MapOrder() {
	leaves := vxLeafSet(vxParam("LEAVES", 1))
	isStruct := vxChoose("struct", 2) == 1
	k0, k1 := vxLeaf("k0", leaves, true), vxLeaf("k1", leaves, true)
	v0, v1 := vxLeaf("v0", leaves, true), vxLeaf("v1", leaves, true)
	if isStruct {
		k0, _ = Name("/f1")
		k1, _ = Name("/f2")
	}
	vxAssume(!vxStructEq(&k0, &k1))
	if k0.Hash() == k1.Hash() {
		vxTag("hash-equal-distinct-keys")
	}
	build := func(order int) Constant {
		vxMapOrder(order)
		defer vxMapOrder(0)
		// fresh copies so that pointer identity plays no role
		a0, a1, b0, b1 := k0, k1, v0, v1
		if isStruct {
			return *Struct(map[*Constant]*Constant{&a0: &b0, &a1: &b1})
		}
		return *Map(map[*Constant]*Constant{&a0: &b0, &a1: &b1})
	}
	m1, m2 := build(0), build(1)
	vxReach("built")
	vxAssert(m1.Equals(m2), "same-pairs-any-order-equal")
	vxAssert(m1.Hash() == m2.Hash(), "same-pairs-any-order-equal-hash")
}

// VxC08StringPrint: two string constants of N1 and N2 arbitrary bytes (valid UTF-8): they print
// identically exactly when they are equal, and equal strings have equal hashes.
func VxC08StringPrint() {
	s1 := vxString("s1", vxParam("N1", 2))
	s2 := vxString("s2", vxParam("N2", 2))
	if vxParam("SINGLE", 0) == 1 {
		// each string is one code point of exactly that many bytes (N >= 2)
		lead := map[int]byte{2: 0xC0, 3: 0xE0, 4: 0xF0}
		vxAssume(s1[0] >= lead[len(s1)] && s2[0] >= lead[len(s2)])
	}
	vxAssume(utf8.ValidString(s1) && utf8.ValidString(s2))
	a, b := String(s1), String(s2)
	pa, pb := a.String(), b.String()
	vxReach("printed")
	vxObserve("printed-a", pa)
	vxObserve("printed-b", pb)
	vxObserve("hash-a", a.Hash())
	eq := a.Equals(b)
	vxAssert(eq == (s1 == s2), "equals-is-structural")
	if eq {
		vxAssert(pa == pb, "equal-implies-equal-print")
		vxAssert(a.Hash() == b.Hash(), "equal-implies-equal-hash")
	}
	if pa == pb {
		vxAssert(eq, "equal-print-implies-equal")
	}
}

// VxC08Compose: the printed form of a composite is composed of the printed forms of its parts:
// a map / struct with two entries prints every "key : value" with the value's own String()
// (escaped strings, constructor forms of times and durations), a list prints its elements'
// String() forms. Values: one-byte strings and byte strings (symbolic byte, so quotes, backslashes
// and control characters are included), numbers, durations and times from small lists.
func VxC08Compose() {
	val := func(id string) Constant {
		switch vxChoose(id+"_kind", 4) {
		case 0:
			return String(vxString(id+"_s", 1))
		case 1:
			return Bytes(vxBytes(id+"_b", 1))
		case 2:
			return Duration([]int64{0, 90000000000}[vxChoose(id+"_d", 2)])
		}
		return Time([]int64{0, 1700000000000000000}[vxChoose(id+"_t", 2)])
	}
	v1, v2 := val("v1"), val("v2")
	if v1.Type == StringType {
		vxAssume(utf8.ValidString(v1.Symbol))
	}
	if v2.Type == StringType {
		vxAssume(utf8.ValidString(v2.Symbol))
	}
	ka, _ := Name("/a")
	kb, _ := Name("/b")
	var whole Constant
	var keys []Constant
	switch vxChoose("composite", 3) {
	case 0:
		whole = *Struct(map[*Constant]*Constant{&ka: &v1, &kb: &v2})
		keys = []Constant{ka, kb}
	case 1:
		k1, k2 := Number(1), Number(2)
		whole = *Map(map[*Constant]*Constant{&k1: &v1, &k2: &v2})
		keys = []Constant{k1, k2}
	default:
		whole = List([]Constant{v1, v2})
	}
	p := whole.String()
	vxReach("printed")
	vxObserve("printed", p)
	if keys != nil {
		open, close := "{", "}"
		if whole.Type == MapShape {
			open, close = "[", "]"
		}
		e1 := keys[0].String() + " : " + v1.String()
		e2 := keys[1].String() + " : " + v2.String()
		ok := p == open+e1+", "+e2+close
		if !ok {
			ok = p == open+e2+", "+e1+close
		}
		vxAssert(ok, "composite-prints-entries-with-value-String")
	} else {
		vxAssert(p == "["+v1.String()+", "+v2.String()+"]", "list-prints-elements-String")
	}
}
