package builtin

// C07 harnesses: comparison predicates, structural match predicates, string predicates.

import (
	"fmt"

	"codeberg.org/TauCeti/mangle-go/ast"
	"codeberg.org/TauCeti/mangle-go/symbols"
	"codeberg.org/TauCeti/mangle-go/unionfind"
)

func vxDecide(p ast.PredicateSym, args ...ast.BaseTerm) (bool, []*unionfind.UnionFind, error) {
	uf := unionfind.New()
	return Decide(ast.Atom{Predicate: p, Args: args}, &uf)
}

// VxC07Order: number/time/duration comparison predicates coincide with the int64 order.
func VxC07Order() {
	kind := vxChoose("kind", 3)
	a, b := vxInt64("a"), vxInt64("b")
	var mk func(int64) ast.Constant
	var preds [4]ast.PredicateSym
	switch kind {
	case 0:
		mk = ast.Number
		preds = [4]ast.PredicateSym{symbols.Lt, symbols.Le, symbols.Gt, symbols.Ge}
	case 1:
		mk = ast.Time
		preds = [4]ast.PredicateSym{symbols.TimeLt, symbols.TimeLe, symbols.TimeGt, symbols.TimeGe}
	case 2:
		mk = ast.Duration
		preds = [4]ast.PredicateSym{symbols.DurationLt, symbols.DurationLe, symbols.DurationGt, symbols.DurationGe}
	}
	want := [4]bool{a < b, a <= b, a > b, a >= b}
	vxReach("order")
	for k := 0; k < 4; k++ {
		got, _, err := vxDecide(preds[k], mk(a), mk(b))
		vxObserve(fmt.Sprintf("order-%d", k), got)
		vxAssert(err == nil, "order-no-error")
		vxAssert(got == want[k], fmt.Sprintf("order-%d", k))
	}
}

// VxC07Match: constructors and match predicates are mutually inverse.
func VxC07Match() {
	part := vxChoose("part", 5)
	X, Y := ast.Variable{Symbol: "X"}, ast.Variable{Symbol: "Y"}
	a, b, c := vxInt64("a"), vxInt64("b"), vxInt64("c")
	ca, cb, cc := ast.Number(a), ast.Number(b), ast.Number(c)
	vxReach("match")
	switch part {
	case 0: // :match_pair(fn:pair(a,b), X, Y)
		p := ast.Pair(&ca, &cb)
		ok, ss, err := vxDecide(symbols.MatchPair, p, X, Y)
		vxAssert(err == nil && ok && len(ss) == 1, "match-pair-ok")
		vxAssert(ss[0].Get(X).Equals(ca) && ss[0].Get(Y).Equals(cb), "match-pair-binds")
		// a pair is not a cons / nil
		ok, _, err = vxDecide(symbols.MatchCons, p, X, Y)
		vxAssert(err == nil && !ok, "pair-is-not-cons")
	case 1: // :match_cons, :match_nil
		l := ast.List([]ast.Constant{ca, cb})
		ok, ss, err := vxDecide(symbols.MatchCons, l, X, Y)
		vxAssert(err == nil && ok && len(ss) == 1, "match-cons-ok")
		vxAssert(ss[0].Get(X).Equals(ca), "match-cons-head")
		tl, isC := ss[0].Get(Y).(ast.Constant)
		vxAssert(isC, "match-cons-tail-const")
		hd2, tl2, err := tl.ConsValue()
		vxAssert(err == nil && hd2.Equals(cb) && tl2.IsListNil(), "match-cons-tail")
		ok, _, err = vxDecide(symbols.MatchNil, l)
		vxAssert(err == nil && !ok, "nonempty-not-nil")
		ok, _, err = vxDecide(symbols.MatchNil, ast.ListNil)
		vxAssert(err == nil && ok, "nil-is-nil")
		ok, _, err = vxDecide(symbols.MatchCons, ast.ListNil, X, Y)
		vxAssert(err == nil && !ok, "nil-not-cons")
	case 2: // :list:member enumerates exactly the elements
		l := ast.List([]ast.Constant{ca, cb, cc})
		ok, ss, err := vxDecide(symbols.ListMember, X, l)
		vxAssert(err == nil && ok && len(ss) == 3, "member-enumerates-all")
		vxAssert(ss[0].Get(X).Equals(ca) && ss[1].Get(X).Equals(cb) && ss[2].Get(X).Equals(cc), "member-elements")
		m := vxInt64("m")
		ok, _, err = vxDecide(symbols.ListMember, ast.Number(m), l)
		vxAssert(err == nil, "member-no-error")
		vxAssert(ok == (m == a || m == b || m == c), "member-decides")
		ok, _, err = vxDecide(symbols.ListMember, X, ast.ListNil)
		vxAssert(err == nil && !ok, "member-of-nil")
	case 3: // :match_entry on a map with symbolic keys
		kvs := map[*ast.Constant]*ast.Constant{&ca: &cb}
		k2, v2 := ast.Number(c), ast.Number(vxInt64("d"))
		kvs[&k2] = &v2
		m := ast.Map(kvs)
		ok, ss, err := vxDecide(symbols.MatchEntry, *m, ca, X)
		vxAssert(err == nil && ok, "match-entry-present")
		got := ss[0].Get(X)
		vxAssert(got.Equals(cb) || (a == c && got.Equals(v2)), "match-entry-value")
		q := vxInt64("q")
		ok, _, err = vxDecide(symbols.MatchEntry, *m, ast.Number(q), X)
		vxAssert(err == nil && ok == (q == a || q == c), "match-entry-decides")
	case 4: // :match_field on a struct
		f1, _ := ast.Name("/f1")
		f2, _ := ast.Name("/f2")
		s := ast.Struct(map[*ast.Constant]*ast.Constant{&f1: &ca, &f2: &cb})
		ok, ss, err := vxDecide(symbols.MatchField, *s, f1, X)
		vxAssert(err == nil && ok && ss[0].Get(X).Equals(ca), "match-field-1")
		ok, ss, err = vxDecide(symbols.MatchField, *s, f2, X)
		vxAssert(err == nil && ok && ss[0].Get(X).Equals(cb), "match-field-2")
		f3, _ := ast.Name("/f3")
		ok, _, err = vxDecide(symbols.MatchField, *s, f3, X)
		vxAssert(err == nil && !ok, "match-field-absent")
		// bound pattern value must agree
		ok, _, err = vxDecide(symbols.MatchField, *s, f1, cc)
		vxAssert(err == nil && ok == (a == c), "match-field-bound-value")
	}
}

func vxHasPrefix(s, p string) bool {
	if len(p) > len(s) {
		return false
	}
	for k := 0; k < len(p); k++ {
		if s[k] != p[k] {
			return false
		}
	}
	return true
}

func vxContains(s, p string) bool {
	for o := 0; o+len(p) <= len(s); o++ {
		if vxHasPrefix(s[o:], p) {
			return true
		}
	}
	return false
}

// VxC07Strings: string and name predicates agree with plain byte-string operations.
func VxC07Strings() {
	n := vxParam("N", 3)
	m := 1 + vxChoose("patlen", vxParam("M", 2))
	s := vxString("s", n)
	p := vxString("p", m)
	vxReach("strings")
	ok, _, err := vxDecide(symbols.StartsWith, ast.String(s), ast.String(p))
	vxAssert(err == nil && ok == vxHasPrefix(s, p), "starts-with")
	suffix := len(p) <= len(s) && s[len(s)-len(p):] == p
	ok, _, err = vxDecide(symbols.EndsWith, ast.String(s), ast.String(p))
	vxAssert(err == nil && ok == suffix, "ends-with")
	ok, _, err = vxDecide(symbols.Contains, ast.String(s), ast.String(p))
	vxAssert(err == nil && ok == vxContains(s, p), "contains")
}

// VxC07Names: :match_prefix on names with symbolic characters.
func VxC07Names() {
	n := vxParam("N", 3)
	m := 1 + vxChoose("patlen", n)
	sb := vxBytes("s", n)
	pb := vxBytes("p", m)
	for _, b := range sb {
		vxAssume((b >= 'a' && b <= 'c') || b == '/')
	}
	for _, b := range pb {
		vxAssume((b >= 'a' && b <= 'c') || b == '/')
	}
	nameC, err1 := ast.Name("/" + string(sb))
	patC, err2 := ast.Name("/" + string(pb))
	if err1 != nil || err2 != nil {
		return
	}
	vxReach("names")
	ok, _, err := vxDecide(symbols.MatchPrefix, nameC, patC)
	s, p := "/"+string(sb), "/"+string(pb)
	// a name lies below the prefix p iff it starts with p followed by a path separator
	vxAssert(err == nil && ok == vxHasPrefix(s, p+"/"), "match-prefix")
}
