package interpreter

// C16: interactive definitions and pop compose like a stack.
// Loads are driven through pushLoadedFragment with programmatic source units (symbolic base
// facts); Define is driven through its public entry with texts from a fixed vocabulary, the
// ANTLR parser being replaced under symx by VxStub_parse_Unit (natively the real parser runs
// on the same texts).

import (
	"fmt"
	"io"
	"strings"
	"time"

	"codeberg.org/TauCeti/mangle-go/ast"
	"codeberg.org/TauCeti/mangle-go/parse"
)

var vxX, vxY = ast.Variable{Symbol: "X"}, ast.Variable{Symbol: "Y"}

func vxAtom(p string, args ...ast.BaseTerm) ast.Atom {
	return ast.Atom{Predicate: ast.PredicateSym{Symbol: p, Arity: len(args)}, Args: args}
}

// the Define vocabulary: text -> clauses (what the real parser produces for the text)
var vxDefineTexts = []string{
	"d(7).\n",                 // 0 a fact
	"dd(X) :- d(X).\n",        // 1 a rule over an interactive predicate
	"u(X) :- p(X, Y).\n",      // 2 a rule over a loaded predicate (valid only while fragment A is live)
	"bad(X) :- d(Y).\n",       // 3 parses, rejected by analysis (X not bound)
	"this is not mangle\n",    // 4 does not parse
}

func vxClausesFor(line string) ([]ast.Clause, bool) {
	switch line {
	case "d(7).":
		return []ast.Clause{{Head: vxAtom("d", ast.Number(7))}}, true
	case "dd(X) :- d(X).":
		return []ast.Clause{{Head: vxAtom("dd", vxX), Premises: []ast.Term{vxAtom("d", vxX)}}}, true
	case "u(X) :- p(X, Y).":
		return []ast.Clause{{Head: vxAtom("u", vxX), Premises: []ast.Term{vxAtom("p", vxX, vxY)}}}, true
	case "bad(X) :- d(Y).":
		return []ast.Clause{{Head: vxAtom("bad", vxX), Premises: []ast.Term{vxAtom("d", vxY)}}}, true
	}
	return nil, false
}

// VxStub_parse_Unit: the parser on the Define vocabulary (one clause per line).
func VxStub_parse_Unit(reader io.Reader) (parse.SourceUnit, error) {
	b, err := io.ReadAll(reader)
	if err != nil {
		return parse.SourceUnit{}, err
	}
	var unit parse.SourceUnit
	for _, line := range strings.Split(string(b), "\n") {
		if line == "" {
			continue
		}
		cs, ok := vxClausesFor(line)
		if !ok {
			return parse.SourceUnit{}, fmt.Errorf("syntax error in %q", line)
		}
		unit.Clauses = append(unit.Clauses, cs...)
	}
	return unit, nil
}

type vxOut struct{}

func (vxOut) Write(p []byte) (int, error) { return len(p), nil }

// loadable fragments
func vxFragment(kind int, facts [][2]int64) (string, []parse.SourceUnit) {
	switch kind {
	case 0: // A: base facts e(x,y) (symbolic) and p :- e
		u := parse.SourceUnit{}
		for _, f := range facts {
			u.Clauses = append(u.Clauses, ast.Clause{Head: vxAtom("e", ast.Number(f[0]), ast.Number(f[1]))})
		}
		u.Clauses = append(u.Clauses, ast.Clause{Head: vxAtom("p", vxX, vxY), Premises: []ast.Term{vxAtom("e", vxX, vxY)}})
		return "a.mg", []parse.SourceUnit{u}
	case 1: // B: uses A's predicate p, adds a fact for e-like predicate f
		u := parse.SourceUnit{Clauses: []ast.Clause{
			{Head: vxAtom("f", ast.Number(1))},
			{Head: vxAtom("q", vxX), Premises: []ast.Term{vxAtom("p", vxX, vxY), vxAtom("f", vxY)}},
		}}
		return "b.mg", []parse.SourceUnit{u}
	case 2: // C: rejected by analysis (unbound head variable)
		u := parse.SourceUnit{Clauses: []ast.Clause{
			{Head: vxAtom("c", ast.Number(3))},
			{Head: vxAtom("cc", vxX), Premises: []ast.Term{vxAtom("c", vxY)}},
		}}
		return "c.mg", []parse.SourceUnit{u}
	case 3: // D: temporal facts
		t0, t1 := time.Unix(0, 1000), time.Unix(0, 2000)
		iv := ast.TimeInterval(t0, t1)
		u := parse.SourceUnit{Clauses: []ast.Clause{
			{Head: vxAtom("t", ast.Number(5)), HeadTime: &iv},
		}}
		return "d.mg", []parse.SourceUnit{u}
	case 4: // E: declarations only (contributes no facts)
		u := parse.SourceUnit{Clauses: []ast.Clause{
			{Head: vxAtom("g", vxX), Premises: []ast.Term{vxAtom("f", vxX)}},
		}}
		return "e.mg", []parse.SourceUnit{u}
	}
	panic("fragment")
}

type vxLive struct {
	load   int    // fragment kind, or -1 for the interactive buffer
	buffer string // interactive text
}

var vxObserved = []ast.PredicateSym{{Symbol: "e", Arity: 2}, {Symbol: "p", Arity: 2}, {Symbol: "q", Arity: 1}, {Symbol: "f", Arity: 1},
	{Symbol: "t", Arity: 1}, {Symbol: "d", Arity: 1}, {Symbol: "dd", Arity: 1}, {Symbol: "u", Arity: 1}, {Symbol: "g", Arity: 1}, {Symbol: "c", Arity: 1}, {Symbol: "bad", Arity: 1}}

func vxSameTerm(a, b ast.Term) bool {
	ta, ok1 := a.(ast.TemporalAtom)
	tb, ok2 := b.(ast.TemporalAtom)
	if ok1 != ok2 {
		return false
	}
	if ok1 {
		return ta.Atom.Equals(tb.Atom) && ta.Interval != nil && tb.Interval != nil && ta.Interval.Equals(*tb.Interval)
	}
	return a.Equals(b)
}

func vxSameAnswers(a, b []ast.Term) bool {
	for _, x := range a {
		n := 0
		for _, y := range b {
			if vxSameTerm(x, y) {
				n++
			}
		}
		if n == 0 {
			return false
		}
	}
	for _, y := range b {
		n := 0
		for _, x := range a {
			if vxSameTerm(x, y) {
				n++
			}
		}
		if n == 0 {
			return false
		}
	}
	return true
}

// vxReplay builds a fresh interpreter holding exactly the live fragments, in order.
func vxReplay(live []vxLive, facts [][2]int64) *Interpreter {
	f := New(vxOut{}, "", nil)
	for _, l := range live {
		if l.load >= 0 {
			path, units := vxFragment(l.load, facts)
			f.pushLoadedFragment(path, units)
		} else {
			f.Define(l.buffer)
		}
	}
	return f
}

// VxC16Stack: every command history of length LEN over the alphabet; after every command the
// interpreter answers like a fresh one that holds only the live fragments.
func VxC16Stack() {
	length := vxParam("LEN", 3)
	alphabet := vxParam("ALPHABET", 0)
	facts := [][2]int64{{vxInt64("x0"), vxInt64("y0")}, {vxInt64("x1"), vxInt64("y1")}}
	in := New(vxOut{}, "", nil)
	var live []vxLive
	// command codes: 0..4 load fragment A..E, 5..9 define text 0..4, 10 pop
	var cmds []int
	switch alphabet {
	case 0:
		cmds = []int{0, 1, 5, 6, 8, 10} // load A, load B, define fact, define rule, define rejected, pop
	case 1:
		cmds = []int{0, 2, 3, 4, 7, 9, 10} // load A, load rejected C, load temporal D, load decl-only E, define over loaded, define unparsable, pop
	default:
		cmds = []int{0, 1, 2, 3, 4, 5, 6, 7, 8, 9, 10}
	}
	for step := 0; step < length; step++ {
		cmd := cmds[vxChoose(fmt.Sprintf("cmd%d", step), len(cmds))]
		switch {
		case cmd <= 4:
			already := false
			for _, l := range live {
				if l.load == cmd {
					already = true
				}
			}
			if already {
				vxAssume(false) // loading the same path twice is not part of this check
			}
			path, units := vxFragment(cmd, facts)
			err := in.pushLoadedFragment(path, units)
			if cmd == 2 {
				vxAssert(err != nil, "rejected-load-reports-error")
			}
			if err == nil {
				live = append(live, vxLive{load: cmd})
			}
		case cmd <= 9:
			text := vxDefineTexts[cmd-5]
			err := in.Define(text)
			if cmd == 8 || cmd == 9 {
				vxAssert(err != nil, "rejected-define-reports-error")
			}
			if err == nil {
				if n := len(live); n > 0 && live[n-1].load < 0 {
					live[n-1].buffer += text
				} else {
					live = append(live, vxLive{load: -1, buffer: text})
				}
			} else {
				vxTag("after-rejected-define")
			}
		default:
			in.Pop()
			if n := len(live); n > 0 {
				live = live[:n-1]
			}
		}
		// compare with a fresh interpreter holding only the live fragments
		fresh := vxReplay(live, facts)
		vxReach("compared")
		for _, sym := range vxObserved {
			got, _ := in.Query(ast.NewQuery(sym))
			want, _ := fresh.Query(ast.NewQuery(sym))
			vxAssert(vxSameAnswers(got, want), fmt.Sprintf("query-like-fresh-interpreter(%s)", sym.Symbol))
			_, e1 := in.ParseQuery(sym.Symbol)
			_, e2 := fresh.ParseQuery(sym.Symbol)
			vxAssert((e1 == nil) == (e2 == nil), fmt.Sprintf("known-predicates-like-fresh-interpreter(%s)", sym.Symbol))
		}
	}
}
