package parse

// C09 (kernel scope): what the printers emit lies in the lexer's token language and
// decodes back to the same value. The ANTLR parser itself is outside this technique;
// counterexamples are confirmed through parse.* by the native replay.

import (
	"unicode/utf8"

	"codeberg.org/TauCeti/mangle-go/ast"
)

// vxThroughParser (native replay only): the printed constant parses back to an equal constant.
func vxThroughParser(c ast.Constant) bool {
	t, err := Term(c.String())
	if err != nil {
		return false
	}
	return c.Equals(t)
}

func vxIsLowerHex(b byte) bool { return (b >= '0' && b <= '9') || (b >= 'a' && b <= 'f') }

// vxShortStringBody accepts the body language of a double-quoted SHORT_STRING of Mangle.g4:
// ( STRING_ESCAPE_SEQ | ~[\\"] )*
func vxShortStringBody(s string) bool {
	i := 0
	for i < len(s) {
		c := s[i]
		if c == '"' {
			return false
		}
		if c != '\\' {
			i++
			continue
		}
		if i+1 >= len(s) {
			return false
		}
		switch s[i+1] {
		case 'n', 't', '"', '\'', '\\', '\n':
			i += 2
		case 'x':
			if i+3 >= len(s) || !vxIsLowerHex(s[i+2]) || !vxIsLowerHex(s[i+3]) {
				return false
			}
			i += 4
		case 'u':
			if i+2 >= len(s) || s[i+2] != '{' {
				return false
			}
			j := i + 3
			for j < len(s) && vxIsLowerHex(s[j]) {
				j++
			}
			if n := j - (i + 3); n < 4 || n > 6 {
				return false
			}
			if j >= len(s) || s[j] != '}' {
				return false
			}
			i = j + 1
		default:
			return false
		}
	}
	return true
}

// VxC09String: every valid UTF-8 string of N symbolic bytes survives Escape/Unescape, and
// the escaped form is a SHORT_STRING body of the grammar.
func VxC09String() {
	n := vxParam("N", 2)
	s := vxString("s", n)
	if lead := vxParam("LEAD", 0); lead > 0 {
		// restrict to strings whose first byte is at least LEAD (0xF0: a leading 4-byte code point)
		vxAssume(int(s[0]) >= lead)
	}
	vxAssume(utf8.ValidString(s))
	esc, err := ast.Escape(s, false)
	vxObserve("escaped", esc)
	vxReach("escaped")
	vxAssert(err == nil, "escape-valid-utf8-no-error")
	vxAssert(vxShortStringBody(esc), "escaped-string-is-a-string-token-body")
	back, err := ast.Unescape(esc, false)
	vxAssert(err == nil, "unescape-no-error")
	vxAssert(back == s, "string-roundtrip")
	if !vxSymbolic() {
		vxAssert(vxThroughParser(ast.String(s)), "string-roundtrip-through-parser")
	}
}

// VxC09Bytes: every byte string of N symbolic bytes survives Escape/Unescape in bytes mode.
func VxC09Bytes() {
	n := vxParam("N", 2)
	s := vxString("b", n)
	esc, err := ast.Escape(s, true)
	vxReach("escaped")
	vxAssert(err == nil, "escape-bytes-no-error")
	vxAssert(vxShortStringBody(esc), "escaped-bytes-is-a-string-token-body")
	back, err := ast.Unescape(esc, true)
	vxAssert(err == nil, "unescape-no-error")
	vxAssert(back == s, "bytes-roundtrip")
	if !vxSymbolic() {
		vxAssert(vxThroughParser(ast.Bytes([]byte(s))), "bytes-roundtrip-through-parser")
	}
}

// vxDecodeDuration decodes a DURATION token (DIGIT+ ('d'|'h'|'m'|'s'|'ms')) into nanoseconds.
func vxDecodeDuration(s string) (int64, bool) {
	i := 0
	var v int64
	for i < len(s) && s[i] >= '0' && s[i] <= '9' {
		v = v*10 + int64(s[i]-'0')
		i++
	}
	if i == 0 {
		return 0, false
	}
	switch s[i:] {
	case "ms":
		return v * 1000000, true
	case "s":
		return v * 1000000000, true
	case "m":
		return v * 60 * 1000000000, true
	case "h":
		return v * 3600 * 1000000000, true
	case "d":
		return v * 86400 * 1000000000, true
	}
	return 0, false
}

// VxC09DurationBound: a duration bound of k units prints as a DURATION token that denotes the same duration.
func VxC09DurationBound() {
	units := []int64{1000000, 1000000000, 60 * 1000000000, 3600 * 1000000000, 86400 * 1000000000}
	u := units[vxChoose("unit", len(units))]
	k := vxInt64("k")
	vxAssume(k >= 0 && k < int64(vxParam("KMAX", 100)))
	d := k * u
	tb := ast.TemporalBound{Type: ast.DurationTemporalBound, Timestamp: d}
	txt := tb.String()
	vxReach("printed")
	got, ok := vxDecodeDuration(txt)
	vxTag("duration-bound-print")
	vxAssert(ok, "duration-bound-prints-a-duration-token")
	vxAssert(got == d, "duration-bound-roundtrip")
	vxAssert(tb.Equals(ast.TemporalBound{Type: ast.DurationTemporalBound, Timestamp: d}), "duration-bound-equals-itself")
	// operators print their bounds inside brackets
	op := ast.TemporalOperator{Type: ast.DiamondMinus, Interval: ast.Interval{Start: ast.TemporalBound{Type: ast.DurationTemporalBound, Timestamp: 0}, End: tb}}
	vxAssert(op.String() == "<-[0ms, "+txt+"]" || op.String() == "<-[0s, "+txt+"]" || op.String() == "<-[0d, "+txt+"]", "operator-prints-bounds")
}

// VxC10Unescape (C10, kernel scope): for every string body of N bytes that the lexer can
// deliver (SHORT_STRING body language), Unescape returns a value or an error and never panics.
func VxC10Unescape() {
	n := vxParam("N", 3)
	body := vxString("body", n)
	if vxParam("UPREFIX", 0) == 1 {
		body = "\\u{" + body // steer into the unicode escape: \u{ + n arbitrary bytes
	}
	vxAssume(vxShortStringBody(body))
	vxReach("deliverable-body")
	ast.Unescape(body, false)
	ast.Unescape(body, true)
	vxAssert(true, "returned-without-panic")
}
