package parse

// C09, clause printing: a necessary condition of "print then parse gives back the same syntax
// tree" that needs no parser: printing is injective. Two structurally different clauses must
// print differently (parsing is a function, so two different trees with one printed form cannot
// both survive the round trip). The second clause is a one-step variation of the first
// (annotation dropped/changed, transform dropped/changed, literal kind changed, number changed).

import (
	"fmt"

	"codeberg.org/TauCeti/mangle-go/ast"
	"codeberg.org/TauCeti/mangle-go/symbols"
)

type vxClauseSpec struct {
	headArgs int   // 1 or 2
	headNum  int64 // second head argument (symbolic)
	headTime int   // 0 none, 1 @[Kd, Kd] durations, 2 @[S, E] variables, 3 @[now, now], 4 @[_, E]
	timeK    int64 // duration units (symbolic)
	prem     []int // literal kinds: 0 atom, 1 negated atom, 2 annotated atom @[S,E], 3 <-[0s,Kd] atom, 4 [-[..] atom, 5 X = n, 6 X != n, 7 <+[..], 8 [+[..]
	premNum  []int64
	transf   int // 0 none, 1 let Y = fn:plus(X, n), 2 do fn:group_by(X), let S = fn:sum(X), 3 do fn:group_by(), let C = fn:count()
	trNum    int64
}

func vxDurBound(k int64) ast.TemporalBound {
	return ast.TemporalBound{Type: ast.DurationTemporalBound, Timestamp: k * 24 * 3600 * 1000000000}
}

func vxVarBound(n string) ast.TemporalBound {
	return ast.TemporalBound{Type: ast.VariableBound, Variable: ast.Variable{Symbol: n}}
}

func (s vxClauseSpec) build() ast.Clause {
	X := ast.Variable{Symbol: "X"}
	c := ast.Clause{Head: ast.NewAtom("h", X)}
	if s.headArgs == 2 {
		c.Head = ast.NewAtom("h", X, ast.Number(s.headNum))
	}
	switch s.headTime {
	case 1:
		iv := ast.Interval{Start: vxDurBound(s.timeK), End: vxDurBound(s.timeK)}
		c.HeadTime = &iv
	case 2:
		iv := ast.Interval{Start: vxVarBound("S"), End: vxVarBound("E")}
		c.HeadTime = &iv
	case 3:
		iv := ast.Interval{Start: ast.Now(), End: ast.Now()}
		c.HeadTime = &iv
	case 4:
		iv := ast.Interval{Start: vxVarBound("_"), End: vxVarBound("E")}
		c.HeadTime = &iv
	}
	for i, k := range s.prem {
		p := ast.NewAtom(fmt.Sprintf("p%d", i), X)
		n := ast.Number(s.premNum[i])
		win := ast.Interval{Start: vxDurBound(0), End: vxDurBound(s.premNum[i])}
		op := func(t ast.TemporalOperatorType) ast.Term {
			return ast.TemporalLiteral{Literal: p, Operator: &ast.TemporalOperator{Type: t, Interval: win}}
		}
		switch k {
		case 0:
			c.Premises = append(c.Premises, p)
		case 1:
			c.Premises = append(c.Premises, ast.NegAtom{Atom: p})
		case 2:
			iv := ast.Interval{Start: vxVarBound("S"), End: vxVarBound("E")}
			c.Premises = append(c.Premises, ast.TemporalLiteral{Literal: p, Interval: &iv})
		case 3:
			c.Premises = append(c.Premises, op(ast.DiamondMinus))
		case 4:
			c.Premises = append(c.Premises, op(ast.BoxMinus))
		case 5:
			c.Premises = append(c.Premises, ast.Eq{Left: X, Right: n})
		case 6:
			c.Premises = append(c.Premises, ast.Ineq{Left: X, Right: n})
		case 7:
			c.Premises = append(c.Premises, op(ast.DiamondPlus))
		default:
			c.Premises = append(c.Premises, op(ast.BoxPlus))
		}
	}
	switch s.transf {
	case 1:
		y := ast.Variable{Symbol: "Y"}
		c.Transform = &ast.Transform{Statements: []ast.TransformStmt{{Var: &y, Fn: ast.ApplyFn{Function: symbols.Plus, Args: []ast.BaseTerm{X, ast.Number(s.trNum)}}}}}
	case 2:
		v := ast.Variable{Symbol: "S"}
		c.Transform = &ast.Transform{Statements: []ast.TransformStmt{
			{Fn: ast.ApplyFn{Function: symbols.GroupBy, Args: []ast.BaseTerm{X}}},
			{Var: &v, Fn: ast.ApplyFn{Function: symbols.Sum, Args: []ast.BaseTerm{X}}}}}
	case 3:
		v := ast.Variable{Symbol: "C"}
		c.Transform = &ast.Transform{Statements: []ast.TransformStmt{
			{Fn: ast.ApplyFn{Function: symbols.GroupBy}},
			{Var: &v, Fn: ast.ApplyFn{Function: symbols.Count}}}}
	}
	return c
}

func (s vxClauseSpec) same(o vxClauseSpec) bool {
	if s.headArgs != o.headArgs || (s.headArgs == 2 && s.headNum != o.headNum) || s.headTime != o.headTime || (s.headTime == 1 && s.timeK != o.timeK) ||
		len(s.prem) != len(o.prem) || s.transf != o.transf || (s.transf == 1 && s.trNum != o.trNum) {
		return false
	}
	for i := range s.prem {
		if s.prem[i] != o.prem[i] {
			return false
		}
		// the number of a literal matters for windows and (in)equalities only
		if k := s.prem[i]; k >= 3 && s.premNum[i] != o.premNum[i] {
			return false
		}
	}
	return true
}

func vxSmall(id string, hi int64) int64 {
	v := vxInt64(id)
	vxAssume(v >= 0 && v < hi)
	return v
}

// vxDays: durations are taken from a list (a symbolic duration would put a 64-bit multiplication
// by 86400e9 and the printer's divisions into every query).
func vxDays(id string) int64 { return []int64{1, 7, 30}[vxChoose(id, 3)] }

// vxPremNum: the number of a literal: symbolic for (in)equalities, from the list for windows.
func vxPremNum(id string, kind int) int64 {
	if kind == 5 || kind == 6 {
		return vxSmall(id, int64(vxParam("NUM", 100)))
	}
	return vxDays(id + "_d")
}

// VxC09ClauseInjective: clause a from the family, clause b a one-step variation of it.
func VxC09ClauseInjective() {
	np := vxParam("PREMISES", 1)
	a := vxClauseSpec{headArgs: 1 + vxChoose("a_headargs", 2), headTime: vxChoose("a_headtime", 5), transf: vxChoose("a_transform", 4)}
	// payloads are drawn only where the chosen shape uses them
	if a.headArgs == 2 {
		a.headNum = vxSmall("a_hn", int64(vxParam("NUM", 100)))
	}
	if a.headTime == 1 {
		a.timeK = vxDays("a_tk")
	}
	if a.transf == 1 {
		a.trNum = vxSmall("a_trn", int64(vxParam("NUM", 100)))
	}
	for i := 0; i < np; i++ {
		a.prem = append(a.prem, vxChoose(fmt.Sprintf("a_prem%d", i), 9))
		n := int64(0)
		if a.prem[i] >= 3 {
			n = vxPremNum(fmt.Sprintf("a_pn%d", i), a.prem[i])
		}
		a.premNum = append(a.premNum, n)
	}
	b := a
	b.prem = append([]int{}, a.prem...)
	b.premNum = append([]int64{}, a.premNum...)
	switch vxChoose("variation", 7) {
	case 0:
		b.headTime = vxChoose("b_headtime", 5)
		if b.headTime == 1 {
			b.timeK = vxDays("b_tk")
		}
	case 1:
		b.transf = vxChoose("b_transform", 4)
		if b.transf == 1 {
			b.trNum = vxSmall("b_trn", int64(vxParam("NUM", 100)))
		}
	case 2:
		i := vxChoose("b_which", np)
		b.prem[i] = vxChoose("b_prem", 9)
		b.premNum[i] = 0
		if b.prem[i] >= 3 {
			b.premNum[i] = vxPremNum("b_pn", b.prem[i])
		}
	case 3:
		vxAssume(a.headArgs == 2)
		b.headNum = vxSmall("b_hn", int64(vxParam("NUM", 100)))
	case 4:
		vxAssume(a.headTime == 1)
		b.timeK = vxDays("b_tk")
	case 5:
		i := vxChoose("b_which", np)
		vxAssume(a.prem[i] >= 3)
		b.premNum[i] = vxPremNum("b_pn", b.prem[i])
	default:
		vxAssume(a.transf == 1)
		b.trNum = vxSmall("b_trn", int64(vxParam("NUM", 100)))
	}
	ca, cb := a.build(), b.build()
	pa, pb := ca.String(), cb.String()
	vxReach("printed")
	vxObserve("printed-a", pa)
	vxObserve("printed-b", pb)
	if a.same(b) {
		vxAssert(pa == pb, "equal-clauses-print-equally")
	} else {
		vxAssert(pa != pb, "different-clauses-print-differently")
	}
	if !vxSymbolic() {
		// concrete replay: the printed clause goes through the real parser and prints back the same
		got, err := Clause(pa)
		vxAssert(err == nil, "printed-clause-parses")
		if err == nil {
			vxAssert(got.String() == pa, "printed-clause-reprints-identically")
		}
	}
}

// vxFloatToken: the lexer's FLOAT token, '-'? DIGIT+ '.' DIGIT+ EXPONENT? with EXPONENT = ('e'|'E') ('+'|'-')? DIGIT+.
func vxFloatToken(s string) bool {
	i := 0
	if i < len(s) && s[i] == '-' {
		i++
	}
	digits := func() bool {
		j := i
		for i < len(s) && s[i] >= '0' && s[i] <= '9' {
			i++
		}
		return i > j
	}
	if !digits() || i >= len(s) || s[i] != '.' {
		return false
	}
	i++
	if !digits() {
		return false
	}
	if i < len(s) && (s[i] == 'e' || s[i] == 'E') {
		i++
		if i < len(s) && (s[i] == '+' || s[i] == '-') {
			i++
		}
		if !digits() {
			return false
		}
	}
	return i == len(s)
}

// VxC09Float: non-integral float constants from a list of boundary magnitudes (strconv's shortest
// float printing cannot be run on a symbolic float): the printed form is a FLOAT token; on the
// concrete native run it also goes through the real parser and comes back equal.
func VxC09Float() {
	list := []float64{0.5, -2.25, 1.5e-10, 1e-10, -3e-12, 9e-10, 1e-9, 7e-200, 5e-324, -5e-324, 123456.789, 1.0000000000000002, 0.1, 1e-7, 1000000000000000.5, 4503599627370495.5}
	f := list[vxChoose("float", len(list))]
	c := ast.Float64(f)
	s := c.String()
	vxObserve("printed", s)
	vxReach("printed")
	vxAssert(vxFloatToken(s), "printed-float-is-a-float-token")
	if !vxSymbolic() {
		vxAssert(vxThroughParser(c), "float-roundtrip-through-parser")
	}
}
