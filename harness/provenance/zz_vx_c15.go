package provenance

// C15: every explanation is a checkable derivation and every derived fact has one.

import (
	"fmt"
	"strings"

	"codeberg.org/TauCeti/mangle-go/analysis"
	"codeberg.org/TauCeti/mangle-go/ast"
	"codeberg.org/TauCeti/mangle-go/engine"
	"codeberg.org/TauCeti/mangle-go/factstore"
	"codeberg.org/TauCeti/mangle-go/functional"
	"codeberg.org/TauCeti/mangle-go/parse"
	"codeberg.org/TauCeti/mangle-go/symbols"
)

// VxStub_provenance_contentHashHex: proof/rule identifiers are content hashes (sha256, not
// encodable); the stub is an injective encoding of the same parts, so identifier equality still
// means equality of the hashed content.
func VxStub_provenance_contentHashHex(parts ...string) string {
	var sb strings.Builder
	for _, p := range parts {
		fmt.Fprintf(&sb, "%d:%s|", len(p), p)
	}
	return sb.String()
}

func vxV(s string) ast.Variable { return ast.Variable{Symbol: s} }
func vxAt(p string, args ...ast.BaseTerm) ast.Atom {
	return ast.Atom{Predicate: ast.PredicateSym{Symbol: p, Arity: len(args)}, Args: args}
}

type vxProg struct {
	rules []ast.Clause
	edb   []ast.PredicateSym
	idb   []ast.PredicateSym
}

func vxPrograms() []vxProg {
	X, Y, Z := vxV("X"), vxV("Y"), vxV("Z")
	e2 := ast.PredicateSym{Symbol: "e", Arity: 2}
	return []vxProg{
		{ // 0 transitive closure
			rules: []ast.Clause{
				{Head: vxAt("p", X, Y), Premises: []ast.Term{vxAt("e", X, Y)}},
				{Head: vxAt("p", X, Z), Premises: []ast.Term{vxAt("e", X, Y), vxAt("p", Y, Z)}},
			},
			edb: []ast.PredicateSym{e2}, idb: []ast.PredicateSym{{Symbol: "p", Arity: 2}},
		},
		{ // 1 mutual recursion: a :- e. a :- b, e. b :- a, e.
			rules: []ast.Clause{
				{Head: vxAt("a", X), Premises: []ast.Term{vxAt("e", X, Y)}},
				{Head: vxAt("a", Y), Premises: []ast.Term{vxAt("b", X), vxAt("e", X, Y)}},
				{Head: vxAt("b", Y), Premises: []ast.Term{vxAt("a", X), vxAt("e", X, Y)}},
			},
			edb: []ast.PredicateSym{e2}, idb: []ast.PredicateSym{{Symbol: "a", Arity: 1}, {Symbol: "b", Arity: 1}},
		},
		{ // 2 negation and inequality, negation not last
			rules: []ast.Clause{
				{Head: vxAt("node", X), Premises: []ast.Term{vxAt("e", X, Y)}},
				{Head: vxAt("node", Y), Premises: []ast.Term{vxAt("e", X, Y)}},
				{Head: vxAt("noself", X, Y), Premises: []ast.Term{vxAt("node", X), ast.NegAtom{Atom: vxAt("e", X, X)}, vxAt("e", X, Y)}},
				{Head: vxAt("diff", X, Y), Premises: []ast.Term{vxAt("node", X), vxAt("node", Y), ast.Ineq{Left: X, Right: Y}, vxAt("e", X, Z)}},
			},
			edb: []ast.PredicateSym{e2}, idb: []ast.PredicateSym{{Symbol: "node", Arity: 1}, {Symbol: "noself", Arity: 2}, {Symbol: "diff", Arity: 2}},
		},
		{ // 3 symmetric-transitive closure (fact-level cycles)
			rules: []ast.Clause{
				{Head: vxAt("q", X, Y), Premises: []ast.Term{vxAt("e", X, Y)}},
				{Head: vxAt("q", Y, X), Premises: []ast.Term{vxAt("q", X, Y)}},
				{Head: vxAt("q", X, Z), Premises: []ast.Term{vxAt("q", X, Y), vxAt("q", Y, Z)}},
			},
			edb: []ast.PredicateSym{e2}, idb: []ast.PredicateSym{{Symbol: "q", Arity: 2}},
		},
		{ // 4 head variables bound only by an equality (constant, function of a bound variable, copy)
			rules: []ast.Clause{
				{Head: vxAt("tagged", X, Y), Premises: []ast.Term{vxAt("e", X, Z), ast.Eq{Left: Y, Right: ast.Number(7)}}},
				{Head: vxAt("next", X, Y), Premises: []ast.Term{vxAt("e", X, Z), ast.Eq{Left: Y, Right: ast.ApplyFn{Function: symbols.Plus, Args: []ast.BaseTerm{Z, ast.Number(1)}}}}},
				{Head: vxAt("same", X, Y), Premises: []ast.Term{vxAt("next", X, Z), ast.Eq{Left: Y, Right: X}}},
			},
			edb: []ast.PredicateSym{e2}, idb: []ast.PredicateSym{{Symbol: "tagged", Arity: 2}, {Symbol: "next", Arity: 2}, {Symbol: "same", Arity: 2}},
		},
	}
}

func vxApplyBindings(t ast.BaseTerm, bs []Binding) ast.BaseTerm {
	if v, ok := t.(ast.Variable); ok {
		for _, b := range bs {
			if b.Var.Symbol == v.Symbol {
				return b.Value
			}
		}
	}
	if f, ok := t.(ast.ApplyFn); ok {
		args := make([]ast.BaseTerm, len(f.Args))
		for i, x := range f.Args {
			args[i] = vxApplyBindings(x, bs)
		}
		return ast.ApplyFn{Function: f.Function, Args: args}
	}
	return t
}

func vxAtomUnder(a ast.Atom, bs []Binding) ast.Atom {
	args := make([]ast.BaseTerm, len(a.Args))
	for i, x := range a.Args {
		args[i] = vxApplyBindings(x, bs)
	}
	return ast.Atom{Predicate: a.Predicate, Args: args}
}

func vxSameAtom(a, b ast.Atom) bool {
	if a.Predicate != b.Predicate || len(a.Args) != len(b.Args) {
		return false
	}
	for i := range a.Args {
		ca, ok1 := a.Args[i].(ast.Constant)
		cb, ok2 := b.Args[i].(ast.Constant)
		if !ok1 || !ok2 || !ca.Equals(cb) {
			return false
		}
	}
	return true
}

// vxCheckProof: the independent proof checker.
func vxCheckProof(n *ProofNode, store factstore.ReadOnlyFactStore, prog vxProg, ancestors []ast.Atom, tag string) {
	for _, a := range ancestors {
		vxAssert(!vxSameAtom(a, n.Fact), tag+":no-fact-is-its-own-ancestor")
	}
	isEDB := false
	for _, p := range prog.edb {
		if p == n.Fact.Predicate {
			isEDB = true
		}
	}
	switch n.Kind {
	case KindEDB:
		vxAssert(isEDB && store.Contains(n.Fact), tag+":edb-leaf-is-a-stored-base-fact")
		return
	case KindAbsence:
		vxAssert(!store.Contains(n.Fact), tag+":absence-leaf-is-absent")
		return
	case KindDerived:
	default:
		vxAssert(false, tag+":unexpected-node-kind")
		return
	}
	vxAssert(n.Rule != nil, tag+":derived-node-has-rule")
	vxAssert(vxSameAtom(vxAtomUnder(n.Rule.Head, n.Bindings), n.Fact), tag+":fact-is-rule-head-under-bindings")
	k := 0
	next := append(append([]ast.Atom(nil), ancestors...), n.Fact)
	if n.Partial {
		// a node flagged Partial was not fully expanded (a premise that is an ancestor is cut,
		// negated premises and transforms are not expanded): the premises that are present must be
		// body literals under the bindings, in body order; the (in)equalities must still hold
		for _, lit := range n.Rule.Premises {
			var want ast.Atom
			switch p := lit.(type) {
			case ast.Atom:
				want = vxAtomUnder(p, n.Bindings)
			case ast.NegAtom:
				want = vxAtomUnder(p.Atom, n.Bindings)
			default:
				continue
			}
			if k < len(n.Premises) && vxSameAtom(want, n.Premises[k].Fact) {
				vxCheckProof(n.Premises[k], store, prog, next, tag)
				k++
			}
		}
		vxAssert(k == len(n.Premises), tag+":partial-node-premises-are-body-literals-in-order")
		return
	}
	for _, lit := range n.Rule.Premises {
		switch p := lit.(type) {
		case ast.Atom:
			vxAssert(k < len(n.Premises), tag+":premise-for-every-body-atom")
			if k < len(n.Premises) {
				vxAssert(n.Premises[k].Kind != KindAbsence, tag+":positive-literal-has-positive-premise")
				vxAssert(vxSameAtom(vxAtomUnder(p, n.Bindings), n.Premises[k].Fact), tag+":premise-is-body-literal-under-bindings")
				vxCheckProof(n.Premises[k], store, prog, next, tag)
			}
			k++
		case ast.NegAtom:
			vxAssert(k < len(n.Premises), tag+":premise-for-every-negated-atom")
			if k < len(n.Premises) {
				vxAssert(n.Premises[k].Kind == KindAbsence, tag+":negated-literal-has-absence-premise")
				vxAssert(vxSameAtom(vxAtomUnder(p.Atom, n.Bindings), n.Premises[k].Fact), tag+":premise-is-body-literal-under-bindings")
				vxCheckProof(n.Premises[k], store, prog, next, tag)
			}
			k++
		case ast.Eq:
			l, _ := functional.EvalExpr(vxApplyBindings(p.Left, n.Bindings), ast.ConstSubstList{})
			r, _ := functional.EvalExpr(vxApplyBindings(p.Right, n.Bindings), ast.ConstSubstList{})
			vxAssert(l != nil && r != nil && l.Equals(r), tag+":equality-holds-under-bindings")
		case ast.Ineq:
			l, _ := functional.EvalExpr(vxApplyBindings(p.Left, n.Bindings), ast.ConstSubstList{})
			r, _ := functional.EvalExpr(vxApplyBindings(p.Right, n.Bindings), ast.ConstSubstList{})
			vxAssert(l != nil && r != nil && !l.Equals(r), tag+":inequality-holds-under-bindings")
		}
	}
	vxAssert(k == len(n.Premises), tag+":no-extra-premises")
}

// VxC15Explain: evaluate program PROG over K symbolic edges, explain every stored fact (post hoc and
// from a recording) and check every returned proof.
func VxC15Explain() {
	prog := vxPrograms()[vxParam("PROG", 0)]
	k := vxParam("K", 2)
	maxProofs := vxParam("MAXPROOFS", 1)
	recorded := vxParam("RECORDED", 0) == 1
	plain := factstore.NewSimpleInMemoryStore()
	withRec := factstore.NewSimpleInMemoryStore()
	for i := 0; i < k; i++ {
		a, b := vxInt64(fmt.Sprintf("a%d", i)), vxInt64(fmt.Sprintf("b%d", i))
		vxAssume(a >= 0 && a < 10 && b >= 0 && b < 10) // printed facts (identifier content) stay one digit long
		f := vxAt("e", ast.Number(a), ast.Number(b))
		plain.Add(f)
		withRec.Add(f)
	}
	decls := map[ast.PredicateSym]ast.Decl{}
	for _, p := range prog.edb {
		decls[p] = ast.NewSyntheticDeclFromSym(p)
	}
	pi, err := analysis.AnalyzeOneUnit(parse.SourceUnit{Clauses: prog.rules}, decls)
	vxAssert(err == nil, "analysis-accepts")
	vxAssert(engine.EvalProgram(pi, &plain) == nil, "eval-no-error")
	rec := NewMemoryRecorder()
	vxAssert(engine.EvalProgram(pi, &withRec, engine.WithDerivationRecorder(rec)) == nil, "eval-with-recorder-no-error")
	vxReach("evaluated")
	vxObserve("facts-after-eval", plain.EstimateFactCount())
	// recorder neutrality
	vxAssert(plain.EstimateFactCount() == withRec.EstimateFactCount(), "recorder-does-not-change-the-result")
	for _, p := range prog.idb {
		var facts []ast.Atom
		plain.GetFacts(ast.NewQuery(p), func(a ast.Atom) error { facts = append(facts, a); return nil })
		for _, goal := range facts {
			vxAssert(withRec.Contains(goal), "recorder-does-not-change-the-result")
			var proofs []*ProofNode
			var perr error
			if recorded {
				proofs, perr = BuildFromRecording(rec, &withRec, goal, Options{MaxProofs: maxProofs})
			} else {
				proofs, perr = Explain(pi, &plain, goal, Options{MaxProofs: maxProofs})
			}
			vxAssert(perr == nil && len(proofs) >= 1, "every-stored-fact-has-a-proof")
			complete := false
			for _, pr := range proofs {
				vxAssert(vxSameAtom(pr.Fact, goal), "proof-proves-the-goal")
				vxCheckProof(pr, &plain, prog, nil, "proof")
				if !vxPartial(pr) {
					complete = true
				}
			}
			vxAssert(complete, "every-stored-fact-has-a-complete-proof")
			// identifiers are a function of content: a second explanation gives the same identifiers
			var again []*ProofNode
			if recorded {
				again, _ = BuildFromRecording(rec, &withRec, goal, Options{MaxProofs: maxProofs})
			} else {
				again, _ = Explain(pi, &plain, goal, Options{MaxProofs: maxProofs})
			}
			// (which alternative proofs are returned, and in which order, may depend on map
			// iteration: only proofs with the same content are compared)
			for _, p1 := range proofs {
				for _, p2 := range again {
					if vxSameProof(p1, p2) {
						vxAssert(p1.ID == p2.ID, "proof-identifier-depends-only-on-content")
					}
				}
			}

		}
	}
}

// vxSameProof: structural equality of proof content (fact, kind, rule text, bindings as a set, premises in order).
func vxSameProof(a, b *ProofNode) bool {
	if a == nil || b == nil {
		return a == b
	}
	if !vxSameAtom(a.Fact, b.Fact) || a.Kind != b.Kind || a.Partial != b.Partial || len(a.Premises) != len(b.Premises) || len(a.Bindings) != len(b.Bindings) {
		return false
	}
	if (a.Rule == nil) != (b.Rule == nil) || (a.Rule != nil && a.Rule.String() != b.Rule.String()) {
		return false
	}
	for _, x := range a.Bindings {
		found := false
		for _, y := range b.Bindings {
			if x.Var.Symbol == y.Var.Symbol && x.Value.Equals(y.Value) {
				found = true
			}
		}
		if !found {
			return false
		}
	}
	for i := range a.Premises {
		if !vxSameProof(a.Premises[i], b.Premises[i]) {
			return false
		}
	}
	return true
}

func vxPartial(n *ProofNode) bool {
	if n.Partial {
		return true
	}
	for _, p := range n.Premises {
		if vxPartial(p) {
			return true
		}
	}
	return false
}
