package factstore

// C06: every fact store behaves as a set of ground atoms (vs. a list-based oracle
// with structural equality written here, not Constant.Equals).

import (
	"fmt"
	"time"

	"codeberg.org/TauCeti/mangle-go/ast"
)

func vxConstEq(a, b ast.Constant) bool {
	if a.Type != b.Type {
		return false
	}
	switch a.Type {
	case ast.NameType, ast.StringType, ast.BytesType:
		return a.Symbol == b.Symbol
	case ast.NumberType, ast.Float64Type, ast.TimeType, ast.DurationType:
		return a.NumValue == b.NumValue
	case ast.ListShape:
		var xs, ys []ast.Constant
		a.ListValues(func(c ast.Constant) error { xs = append(xs, c); return nil }, func() error { return nil })
		b.ListValues(func(c ast.Constant) error { ys = append(ys, c); return nil }, func() error { return nil })
		if len(xs) != len(ys) {
			return false
		}
		for i := range xs {
			if !vxConstEq(xs[i], ys[i]) {
				return false
			}
		}
		return true
	case ast.PairShape:
		af, as, _ := a.PairValue()
		bf, bs, _ := b.PairValue()
		return vxConstEq(af, bf) && vxConstEq(as, bs)
	}
	return false
}

func vxAtomEq(a, b ast.Atom) bool {
	if a.Predicate.Symbol != b.Predicate.Symbol || a.Predicate.Arity != b.Predicate.Arity || len(a.Args) != len(b.Args) {
		return false
	}
	for i := range a.Args {
		ca, ok1 := a.Args[i].(ast.Constant)
		cb, ok2 := b.Args[i].(ast.Constant)
		if !ok1 || !ok2 || !vxConstEq(ca, cb) {
			return false
		}
	}
	return true
}

// vxMkConst: a constant of the shape picked by case index, with symbolic leaves.
// shapes: 0 number, 1 duration, 2 time, 3 one-byte string, 4 name from {/a,/b}, 5 list [number], 6 pair(number,number)
func vxMkConst(name string, shapes []int) ast.Constant {
	sh := shapes[vxChoose(name+"_shape", len(shapes))]
	switch sh {
	case 0:
		return ast.Number(vxInt64(name + "_n"))
	case 1:
		return ast.Duration(vxInt64(name + "_n"))
	case 2:
		return ast.Time(vxInt64(name + "_n"))
	case 3:
		return ast.String(vxString(name+"_s", 1))
	case 4:
		if vxChoose(name+"_nm", 2) == 0 {
			c, _ := ast.Name("/a")
			return c
		}
		c, _ := ast.Name("/b")
		return c
	case 5:
		v := vxInt64(name + "_n")
		vxAssume(v >= 0 && v < 4)
		return ast.List([]ast.Constant{ast.Number(v)})
	case 6:
		a, b := vxInt64(name+"_n"), vxInt64(name+"_m")
		vxAssume(a >= 0 && a < 4 && b >= 0 && b < 4)
		ca, cb := ast.Number(a), ast.Number(b)
		return ast.Pair(&ca, &cb)
	}
	panic("shape")
}

func vxShapeSet(code int) []int {
	switch code {
	case 0:
		return []int{0}
	case 1:
		return []int{0, 1}
	case 2:
		return []int{0, 3, 4}
	case 3:
		return []int{0, 5}
	case 4:
		return []int{0, 1, 2, 3, 4}
	case 5:
		return []int{5, 6}
	}
	return []int{0}
}

func vxMkAtom(name string, arity int, shapes []int, preds int) ast.Atom {
	sym := "p"
	if preds > 1 && vxChoose(name+"_pred", preds) == 1 {
		sym = "q"
	}
	args := make([]ast.BaseTerm, arity)
	for i := range args {
		args[i] = vxMkConst(fmt.Sprintf("%s_a%d", name, i), shapes)
	}
	return ast.Atom{Predicate: ast.PredicateSym{Symbol: sym, Arity: arity}, Args: args}
}

type vxStoreUnderTest struct {
	s       FactStore
	rm      FactStoreWithRemove // nil if the store has no Remove
	exact   bool                // EstimateFactCount is exact
	preload []ast.Atom          // facts present before the history (read-only layers)
}

func vxNewStoreUnderTest(kind int) vxStoreUnderTest {
	switch kind {
	case 0:
		s := NewSimpleInMemoryStore()
		return vxStoreUnderTest{s: s, rm: s, exact: true}
	case 1:
		s := NewIndexedInMemoryStore()
		return vxStoreUnderTest{s: s, rm: s, exact: true}
	case 2:
		s := NewMultiIndexedInMemoryStore()
		return vxStoreUnderTest{s: s, rm: s, exact: true}
	case 3:
		s := NewMultiIndexedArrayInMemoryStore()
		return vxStoreUnderTest{s: s, rm: s, exact: true}
	case 4: // merged: one read-only store holding p(7...) and a write store
		ro := NewSimpleInMemoryStore()
		w := NewSimpleInMemoryStore()
		m := NewMergedStore([]ReadOnlyFactStore{ro}, w)
		return vxStoreUnderTest{s: m, exact: false}
	case 5: // teeing over an empty base
		base := NewSimpleInMemoryStore()
		t := NewTeeingStore(base)
		return vxStoreUnderTest{s: t, rm: t, exact: true}
	case 6:
		c := NewConcurrentFactStore(NewSimpleInMemoryStore())
		return vxStoreUnderTest{s: c, rm: c, exact: true}
	case 7:
		a := NewTemporalFactStoreAdapterAt(NewTemporalStore(), time.Unix(0, 1000))
		return vxStoreUnderTest{s: a, exact: true}
	}
	panic("store kind")
}

func vxDigits(code int) []int {
	// decimal digits after a leading 9 sentinel, e.g. 90010 -> [0 0 1 0]
	var d []int
	for code > 9 {
		d = append([]int{code % 10}, d...)
		code /= 10
	}
	return d
}

// VxC06Store: a history of operations (OPS digits: 0 Add, 1 Remove, 2 Contains) over symbolic atoms.
func VxC06Store() {
	sut := vxNewStoreUnderTest(vxParam("STORE", 0))
	ops := vxDigits(vxParam("OPS", 9001))
	arity := vxParam("ARITY", 1)
	shapes := vxShapeSet(vxParam("SHAPES", 0))
	preds := vxParam("PREDS", 1)
	atoms := make([]ast.Atom, len(ops))
	for i := range ops {
		atoms[i] = vxMkAtom(fmt.Sprintf("h%d", i), arity, shapes, preds)
	}
	// classification: do two structurally different history atoms have the same hash?
	for i := range atoms {
		for j := 0; j < i; j++ {
			if !vxAtomEq(atoms[i], atoms[j]) && atoms[i].Predicate == atoms[j].Predicate && atoms[i].Hash() == atoms[j].Hash() {
				vxNoFnvCollision(atoms[i], atoms[j])
				vxTag("hash-equal-distinct-atoms")
			}
		}
	}
	var set []ast.Atom // oracle
	member := func(a ast.Atom) int {
		for i, b := range set {
			if vxAtomEq(a, b) {
				return i
			}
		}
		return -1
	}
	for i, op := range ops {
		a := atoms[i]
		switch op {
		case 0:
			got := sut.s.Add(a)
			vxAssert(got == (member(a) < 0), "add-result")
			if member(a) < 0 {
				set = append(set, a)
			}
		case 1:
			if sut.rm == nil {
				continue
			}
			got := sut.rm.Remove(a)
			idx := member(a)
			vxAssert(got == (idx >= 0), "remove-result")
			if idx >= 0 {
				set = append(set[:idx:idx], set[idx+1:]...)
			}
		case 2:
			vxAssert(sut.s.Contains(a) == (member(a) >= 0), "contains-result")
		}
		if sut.exact {
			vxAssert(sut.s.EstimateFactCount() == len(set), "count")
		}
	}
	vxReach("history-done")
	// membership of every history atom
	for _, a := range atoms {
		vxAssert(sut.s.Contains(a) == (member(a) >= 0), "contains-after-history")
	}
	// full scans per predicate: exactly the members, each once
	for _, sym := range []string{"p", "q"} {
		p := ast.PredicateSym{Symbol: sym, Arity: arity}
		var got []ast.Atom
		sut.s.GetFacts(ast.NewQuery(p), func(f ast.Atom) error { got = append(got, f); return nil })
		for _, g := range got {
			vxAssert(member(g) >= 0 && g.Predicate == p, "scan-sound")
		}
		n := 0
		for _, m := range set {
			if m.Predicate != p {
				continue
			}
			n++
			c := 0
			for _, g := range got {
				if vxAtomEq(g, m) {
					c++
				}
			}
			vxAssert(c == 1, "scan-each-member-once")
		}
		// predicate listing
		listed := 0
		for _, lp := range sut.s.ListPredicates() {
			if lp == p {
				listed++
			}
		}
		if n > 0 {
			vxAssert(listed == 1, "predicate-listed-once")
		} else {
			vxAssert(listed <= 1, "predicate-listed-at-most-once")
		}
	}
	// pattern query: constant in the last column (a non-first column when arity > 1)
	if arity >= 1 {
		probe := atoms[len(atoms)-1]
		col := arity - 1
		args := make([]ast.BaseTerm, arity)
		for i := range args {
			args[i] = ast.Variable{Symbol: fmt.Sprintf("X%d", i)}
		}
		args[col] = probe.Args[col]
		q := ast.Atom{Predicate: probe.Predicate, Args: args}
		var got []ast.Atom
		sut.s.GetFacts(q, func(f ast.Atom) error { got = append(got, f); return nil })
		pc := probe.Args[col].(ast.Constant)
		for _, g := range got {
			vxAssert(member(g) >= 0 && vxConstEq(g.Args[col].(ast.Constant), pc), "pattern-sound")
		}
		for _, m := range set {
			if m.Predicate != probe.Predicate || !vxConstEq(m.Args[col].(ast.Constant), pc) {
				continue
			}
			c := 0
			for _, g := range got {
				if vxAtomEq(g, m) {
					c++
				}
			}
			vxAssert(c == 1, "pattern-each-match-once")
		}
	}
}

// VxC06Merge: merging a store into a store of another kind yields the union.
func VxC06Merge() {
	src := vxNewStoreUnderTest(vxParam("SRC", 0))
	dst := vxNewStoreUnderTest(vxParam("DST", 3))
	shapes := vxShapeSet(vxParam("SHAPES", 0))
	n := vxParam("N", 2)
	var set []ast.Atom
	add := func(st FactStore, a ast.Atom) {
		st.Add(a)
		for _, b := range set {
			if vxAtomEq(a, b) {
				return
			}
		}
		set = append(set, a)
	}
	var atoms []ast.Atom
	for i := 0; i < n; i++ {
		atoms = append(atoms, vxMkAtom(fmt.Sprintf("s%d", i), 1, shapes, 2), vxMkAtom(fmt.Sprintf("d%d", i), 1, shapes, 2))
	}
	for i := range atoms {
		for j := 0; j < i; j++ {
			if !vxAtomEq(atoms[i], atoms[j]) && atoms[i].Predicate == atoms[j].Predicate && atoms[i].Hash() == atoms[j].Hash() {
				vxNoFnvCollision(atoms[i], atoms[j])
				vxTag("hash-equal-distinct-atoms")
			}
		}
	}
	for i := 0; i < n; i++ {
		add(src.s, atoms[2*i])
		add(dst.s, atoms[2*i+1])
	}
	dst.s.Merge(src.s)
	vxReach("merged")
	for _, m := range set {
		vxAssert(dst.s.Contains(m), "merge-contains-union")
	}
	if dst.exact {
		vxAssert(dst.s.EstimateFactCount() == len(set), "merge-count")
	}
	for _, sym := range []string{"p", "q"} {
		p := ast.PredicateSym{Symbol: sym, Arity: 1}
		var got []ast.Atom
		dst.s.GetFacts(ast.NewQuery(p), func(f ast.Atom) error { got = append(got, f); return nil })
		for _, m := range set {
			if m.Predicate != p {
				continue
			}
			c := 0
			for _, g := range got {
				if vxAtomEq(g, m) {
					c++
				}
			}
			vxAssert(c == 1, "merge-scan-each-once")
		}
		for _, g := range got {
			ok := false
			for _, m := range set {
				if vxAtomEq(g, m) {
					ok = true
				}
			}
			vxAssert(ok, "merge-scan-sound")
		}
	}
}

// vxNoFnvCollision: part of the H-fnv contract. The hash of a name, string or byte string is an
// FNV-64 value, which the engine treats as an uninterpreted injective function; a model in which
// such a value equals the payload of a number/duration/time (or pairs up inside an atom hash)
// describes a collision the real FNV function does not have for these inputs, and its native
// replay cannot reproduce. Two hash-equal distinct atoms are therefore only considered when the
// arguments in which they differ are payload-hashed on both sides.
func vxNoFnvCollision(a, b ast.Atom) {
	fnv := func(t ast.BaseTerm) bool {
		c, ok := t.(ast.Constant)
		return ok && (c.Type == ast.NameType || c.Type == ast.StringType || c.Type == ast.BytesType)
	}
	for k := range a.Args {
		if k < len(b.Args) {
			ca, ok1 := a.Args[k].(ast.Constant)
			cb, ok2 := b.Args[k].(ast.Constant)
			if ok1 && ok2 && !vxConstEq(ca, cb) && (fnv(ca) || fnv(cb)) {
				vxAssume(false)
			}
		}
	}
}

// VxC06Teeing: a teeing store over a base that already holds facts.
func VxC06Teeing() {
	shapes := vxShapeSet(vxParam("SHAPES", 0))
	base := NewSimpleInMemoryStore()
	b0 := vxMkAtom("b0", 1, shapes, 2)
	base.Add(b0)
	t := NewTeeingStore(base)
	a := vxMkAtom("a", 1, shapes, 2)
	inBase := vxAtomEq(a, b0)
	if !inBase && a.Predicate == b0.Predicate && a.Hash() == b0.Hash() {
		vxNoFnvCollision(a, b0)
		vxTag("hash-equal-distinct-atoms")
	}
	got := t.Add(a)
	vxReach("teeing")
	vxAssert(got == !inBase, "teeing-add-result")
	vxAssert(t.Contains(a) && t.Contains(b0), "teeing-contains")
	got = t.Add(a)
	vxAssert(!got, "teeing-add-again")
	// the base is never written through the teeing store
	vxAssert(base.EstimateFactCount() == 1, "base-unchanged")
	cnt := 0
	t.GetFacts(ast.NewQuery(a.Predicate), func(f ast.Atom) error {
		if vxAtomEq(f, a) {
			cnt++
		}
		return nil
	})
	vxAssert(cnt == 1, "teeing-scan-once")
}
