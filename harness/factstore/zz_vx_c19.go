package factstore

// C19 (layout-kernel scope) and the fact-file part of C10.
// The ANTLR-backed parse.BaseTerm / parse.PredicateName are replaced under symx by the
// contract stubs VxStub_parse_* below (X-parse); natively the real parser runs.

import (
	"bytes"
	"fmt"
	"strings"

	"codeberg.org/TauCeti/mangle-go/ast"
)

// VxStub_parse_BaseTerm: a total function from one line token to a constant, for the
// constant kinds this harness writes: names, decimal numbers, double-quoted strings.
func VxStub_parse_BaseTerm(s string) (ast.BaseTerm, error) {
	if len(s) == 0 {
		return nil, fmt.Errorf("empty term")
	}
	switch {
	case s[0] == '/':
		return ast.Name(s)
	case s[0] == '"':
		if len(s) < 2 || s[len(s)-1] != '"' {
			return nil, fmt.Errorf("bad string")
		}
		u, err := ast.Unescape(s[1:len(s)-1], false)
		if err != nil {
			return nil, err
		}
		return ast.String(u), nil
	}
	neg := false
	i := 0
	if s[0] == '-' {
		neg = true
		i = 1
	}
	if i >= len(s) {
		return nil, fmt.Errorf("bad number")
	}
	var v int64
	for ; i < len(s); i++ {
		if s[i] < '0' || s[i] > '9' {
			return nil, fmt.Errorf("bad number")
		}
		v = v*10 + int64(s[i]-'0')
	}
	if neg {
		v = -v
	}
	return ast.Number(v), nil
}

// VxStub_parse_PredicateName: accepts NAME tokens [a-z][a-z0-9_]*.
func VxStub_parse_PredicateName(s string) (string, error) {
	if len(s) == 0 || s[0] < 'a' || s[0] > 'z' {
		return "", nil
	}
	return s, nil
}

// vxBuf is a minimal io.Writer (bytes.Buffer is not modelled by the engine).
type vxBuf struct{ b []byte }

func (w *vxBuf) Write(p []byte) (int, error) { w.b = append(w.b, p...); return len(p), nil }
func (w *vxBuf) Bytes() []byte               { return w.b }

// vxArg: argument constants. shape 0: number in 0..99 (symbolic), 1: name from a list that includes
// '%'-bearing names, 2: short string from a list.
func vxArg(id string, shapes int) ast.Constant {
	switch vxChoose(id+"_sh", shapes) {
	case 0:
		if id == "c0_0_0" || id == "d0" {
			// one designated cell carries a symbolic number (printed and re-read digit by digit)
			v := vxInt64(id + "_n")
			vxAssume(v >= 0 && v < 100)
			return ast.Number(v)
		}
		return ast.Number([]int64{0, 7, -42}[vxChoose(id+"_num", 3)])
	case 1:
		names := []string{"/a", "/a/b", "/x%41y", "/100%", "/a%b%41", "/100%%"}
		nm := names[vxChoose(id+"_nm", len(names))]
		if strings.Contains(nm, "%") {
			vxTag("name-with-percent")
		}
		c, _ := ast.Name(nm)
		return c
	}
	if vxParam("SYMNAME", 0) > 0 && id == "c0_0_0" {
		// one designated cell is a name whose characters are arbitrary CONSTANT_CHARs
		// (letters, digits, . - _ ~ %) or '/', with no empty part
		n := vxParam("SYMNAME", 0)
		b := vxBytes(id+"_name", n)
		for i := 0; i < n; i++ {
			c := b[i]
			okc := (c >= 'a' && c <= 'z') || (c >= 'A' && c <= 'Z') || (c >= '0' && c <= '9') || c == '.' || c == '-' || c == '_' || c == '~' || c == '%' || (c == '/' && i > 0 && i < n-1 && b[i-1] != '/')
			vxAssume(okc)
		}
		vxTag("name-with-percent")
		c, err := ast.Name("/" + string(b))
		vxAssume(err == nil)
		return c
	}
	strs := []string{"", "a b", "x\ny"}
	return ast.String(strs[vxChoose(id+"_s", len(strs))])
}

// vxListing is a read-only store that additionally lists predicates without any fact
// (what a store backed by declarations would do); WriteTo accepts any ReadOnlyFactStore.
type vxListing struct {
	ReadOnlyFactStore
	extra []ast.PredicateSym
	front bool
}

func (l vxListing) ListPredicates() []ast.PredicateSym {
	if l.front {
		return append(append([]ast.PredicateSym{}, l.extra...), l.ReadOnlyFactStore.ListPredicates()...)
	}
	return append(l.ReadOnlyFactStore.ListPredicates(), l.extra...)
}

// VxC19RoundTrip: write a store with up to P predicates (arity and fact count per case index) and read it
// back eagerly (ReadInto) and lazily (SimpleColumnStore.GetFacts with pattern queries).
func VxC19RoundTrip() {
	np := vxParam("P", 2)
	maxArity := vxParam("A", 2)
	maxFacts := vxParam("F", 2)
	shapes := vxParam("SHAPES", 1)
	det := vxParam("DET", 1) == 1
	src := NewMultiIndexedArrayInMemoryStore()
	var atoms []ast.Atom
	var preds []ast.PredicateSym
	for p := 0; p < np; p++ {
		arity := vxChoose(fmt.Sprintf("arity%d", p), maxArity+1)
		nf := vxChoose(fmt.Sprintf("facts%d", p), maxFacts+1)
		sym := ast.PredicateSym{Symbol: fmt.Sprintf("p%d", p), Arity: arity}
		if vxParam("SAMENAME", 0) == 1 {
			// predicates that share their name and differ in arity only
			sym.Symbol = "p"
			for _, q := range preds {
				vxAssume(q.Arity != arity)
			}
		}
		preds = append(preds, sym)
		if arity == 0 && nf > 1 {
			nf = 1
		}
		for f := 0; f < nf; f++ {
			args := make([]ast.BaseTerm, arity)
			for a := range args {
				args[a] = vxArg(fmt.Sprintf("c%d_%d_%d", p, f, a), shapes)
			}
			at := ast.Atom{Predicate: sym, Args: args}
			if src.Add(at) {
				atoms = append(atoms, at)
			}
		}
	}
	if vxParam("RM", 0) == 1 && len(atoms) > 0 {
		// remove the first atom again: its predicate may stay listed with no facts
		src.Remove(atoms[0])
		atoms = atoms[1:]
		vxTag("predicate-listed-without-facts")
	}
	var wsrc ReadOnlyFactStore = src
	if vxParam("LISTEMPTY", 0) == 1 {
		// the written store also lists predicates that have no facts, zero-arity ones included
		extra := []ast.PredicateSym{{Symbol: "e0", Arity: 0}, {Symbol: "e1", Arity: 1}}[:1+vxChoose("extra", 2)]
		wsrc = vxListing{src, extra, vxChoose("extrafront", 2) == 1}
		preds = append(preds, extra...)
		vxTag("source-lists-empty-predicates")
	}
	var buf vxBuf
	sc := SimpleColumn{Deterministic: det}
	err := sc.WriteTo(wsrc, &buf)
	vxAssert(err == nil, "write-no-error")
	data := buf.Bytes()
	// eager
	dst := NewMultiIndexedArrayInMemoryStore()
	err = sc.ReadInto(bytes.NewReader(data), dst)
	vxReach("read-back")
	vxObserve("bytes-written", string(data))
	vxObserve("facts-read-back", dst.EstimateFactCount())
	vxAssert(err == nil, "readinto-no-error")
	vxAssert(dst.EstimateFactCount() == len(atoms), "readinto-same-count")
	for _, a := range atoms {
		vxAssert(dst.Contains(a), "readinto-contains-original")
	}
	// lazy view
	lazy, err := NewSimpleColumnStoreFromBytes(data)
	vxAssert(err == nil, "lazy-open-no-error")
	vxAssert(lazy.EstimateFactCount() == len(atoms), "lazy-count")
	for _, sym := range preds {
		var got []ast.Atom
		err := lazy.GetFacts(ast.NewQuery(sym), func(f ast.Atom) error { got = append(got, f); return nil })
		vxAssert(err == nil, "lazy-scan-no-error")
		n := 0
		for _, a := range atoms {
			if a.Predicate != sym {
				continue
			}
			n++
			c := 0
			for _, g := range got {
				if vxAtomEq(g, a) {
					c++
				}
			}
			vxAssert(c == 1, "lazy-scan-each-once")
		}
		vxAssert(len(got) == n, "lazy-scan-nothing-else")
	}
	// pattern queries: constants taken from the first stored atom with arity >= 1, every constant/variable mask
	for _, probe := range atoms {
		if len(probe.Args) == 0 {
			vxAssert(lazy.Contains(probe), "lazy-contains-zero-arity")
			continue
		}
		mask := vxChoose("mask_"+probe.Predicate.Symbol, 1<<uint(len(probe.Args)))
		q := ast.Atom{Predicate: probe.Predicate, Args: make([]ast.BaseTerm, len(probe.Args))}
		for i := range q.Args {
			if mask&(1<<uint(i)) != 0 {
				q.Args[i] = probe.Args[i]
			} else {
				q.Args[i] = ast.Variable{Symbol: fmt.Sprintf("X%d", i)}
			}
		}
		var got []ast.Atom
		lazy.GetFacts(q, func(f ast.Atom) error { got = append(got, f); return nil })
		for _, a := range atoms {
			if a.Predicate != probe.Predicate {
				continue
			}
			match := true
			for i := range q.Args {
				if c, ok := q.Args[i].(ast.Constant); ok && !vxConstEq(c, a.Args[i].(ast.Constant)) {
					match = false
				}
			}
			c := 0
			for _, g := range got {
				if vxAtomEq(g, a) {
					c++
				}
			}
			if match {
				vxAssert(c == 1, "lazy-pattern-match-once")
			} else {
				vxAssert(c == 0, "lazy-pattern-no-nonmatching")
			}
		}
		break
	}
}

// VxC19Deterministic: with Deterministic, the bytes depend only on the set of facts
// (two insertion orders, two map-iteration policies).
func VxC19Deterministic() {
	shapes := vxParam("SHAPES", 1)
	n := vxParam("N", 3)
	var atoms []ast.Atom
	for i := 0; i < n; i++ {
		sym := ast.PredicateSym{Symbol: []string{"p", "q"}[vxChoose(fmt.Sprintf("pr%d", i), 2)], Arity: 1}
		var arg ast.Constant
		if vxParam("HASHEQ", 0) == 1 {
			// constants of different kinds with equal hashes (Constant.Hash is the payload):
			// the order of hash-equal atoms must not leak into the bytes either
			v := []int64{7, 90000000000}[vxChoose(fmt.Sprintf("hv%d", i), 2)]
			switch vxChoose(fmt.Sprintf("hk%d", i), vxParam("KINDS", 2)) {
			case 0:
				arg = ast.Number(v)
			case 1:
				arg = ast.Duration(v)
			default:
				arg = ast.Time(v)
			}
		} else {
			arg = vxArg(fmt.Sprintf("d%d", i), shapes)
		}
		at := ast.Atom{Predicate: sym, Args: []ast.BaseTerm{arg}}
		dup := false
		for _, b := range atoms {
			if vxAtomEq(b, at) {
				dup = true
			}
		}
		if !dup {
			atoms = append(atoms, at)
		}
	}
	write := func(order int, rev bool) []byte {
		// a bucketed store: hash-equal distinct atoms are both kept
		st := NewMultiIndexedArrayInMemoryStore()
		if rev {
			for i := len(atoms) - 1; i >= 0; i-- {
				st.Add(atoms[i])
			}
		} else {
			for _, a := range atoms {
				st.Add(a)
			}
		}
		vxMapOrder(order)
		defer vxMapOrder(0)
		var buf vxBuf
		err := SimpleColumn{Deterministic: true}.WriteTo(st, &buf)
		vxAssert(err == nil, "write-no-error")
		return buf.Bytes()
	}
	a := write(0, false)
	b := write(1, true)
	vxReach("written-twice")
	vxAssert(string(a) == string(b), "deterministic-bytes")
}

// VxC10FactFile: reading an arbitrary small fact file never panics (header counts, arities and
// line contents per case index, including empty lines and negative counts).
func VxC10FactFile() {
	np := vxChoose("np", 4) - 1 // -1..2
	vxTag("corrupt-fact-file")
	lines := []string{fmt.Sprintf("%d", np)}
	for p := 0; p < np && p < 2; p++ {
		arity := vxChoose(fmt.Sprintf("arity%d", p), 3) - 1 // -1..1
		nf := vxChoose(fmt.Sprintf("facts%d", p), 4) - 1    // -1..2
		lines = append(lines, fmt.Sprintf("p%d %d %d", p, arity, nf))
	}
	nl := vxChoose("datalines", 3)
	symLen := vxParam("SYMLINE", 0)
	for l := 0; l < nl; l++ {
		if symLen > 0 && l == 0 {
			// the first data line is 1..SYMLINE arbitrary bytes (anything a corrupted file may hold
			// on one line: no line feed)
			n := 1 + vxChoose("symline_len", symLen)
			ln := vxString("ln", n)
			for i := 0; i < n; i++ {
				vxAssume(ln[i] != '\n')
			}
			lines = append(lines, ln)
			continue
		}
		lines = append(lines, []string{"", "7", "/a", "/%"}[vxChoose(fmt.Sprintf("line%d", l), 4)])
	}
	data := []byte(strings.Join(lines, "\n"))
	if vxChoose("trailing-newline", 2) == 1 {
		data = append(data, '\n')
	}
	dst := NewSimpleInMemoryStore()
	err := SimpleColumn{}.ReadInto(bytes.NewReader(data), dst)
	vxReach("readinto-returned")
	_ = err
	lazy, err := NewSimpleColumnStoreFromBytes(data)
	if err == nil {
		for _, p := range lazy.ListPredicates() {
			lazy.GetFacts(ast.NewQuery(p), func(ast.Atom) error { return nil })
		}
	}
	vxAssert(true, "returned-without-panic")
}
