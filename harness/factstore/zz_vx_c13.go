package factstore

// C13 harnesses: interval tree and temporal store vs. a brute-force oracle.

import (
	"fmt"
	"time"

	"codeberg.org/TauCeti/mangle-go/ast"
)

type vxIv struct {
	iv   ast.Interval
	s, e int64 // effective closed interval [s,e] in nanoseconds (±inf as int64 extremes)
}

// vxMkInterval builds an interval whose endpoint types are picked by case
// index and whose timestamps are unconstrained int64 with start <= end.
func vxMkInterval(name string, withInf bool) vxIv {
	st, et := 0, 0
	if withInf {
		st = vxChoose(name+"_st", 2) // 0 timestamp, 1 -inf
		et = vxChoose(name+"_et", 2) // 0 timestamp, 1 +inf
	}
	var r vxIv
	if st == 0 {
		r.s = vxInt64(name + "_s")
		r.iv.Start = ast.TemporalBound{Type: ast.TimestampBound, Timestamp: r.s}
	} else {
		r.s = minInt64
		r.iv.Start = ast.NegativeInfinity()
	}
	if et == 0 {
		r.e = vxInt64(name + "_e")
		r.iv.End = ast.TemporalBound{Type: ast.TimestampBound, Timestamp: r.e}
	} else {
		r.e = maxInt64
		r.iv.End = ast.PositiveInfinity()
	}
	vxAssume(r.s <= r.e)
	return r
}

func vxTreeInvariant(n *treeNode) (ok bool, h int, maxEnd int64, minStart, maxStart int64) {
	if n == nil {
		return true, 0, minInt64, maxInt64, minInt64
	}
	okL, hl, ml, minL, maxL := vxTreeInvariant(n.left)
	okR, hr, mr, minR, maxR := vxTreeInvariant(n.right)
	ok = okL && okR
	s := GetStartTime(n.interval)
	// BST by start (equal starts may sit on either side after rotations)
	if n.left != nil && !(maxL <= s) {
		ok = false
	}
	if n.right != nil && !(minR >= s) {
		ok = false
	}
	h = hl
	if hr > h {
		h = hr
	}
	h++
	if n.height != h {
		ok = false
	}
	if hl-hr > 1 || hr-hl > 1 {
		ok = false
	}
	maxEnd = GetEndTime(n.interval)
	if ml > maxEnd && n.left != nil {
		maxEnd = ml
	}
	if mr > maxEnd && n.right != nil {
		maxEnd = mr
	}
	if n.maxEnd != maxEnd {
		ok = false
	}
	minStart, maxStart = s, s
	if n.left != nil && minL < minStart {
		minStart = minL
	}
	if n.right != nil && maxR > maxStart {
		maxStart = maxR
	}
	if n.left != nil && maxL > maxStart {
		maxStart = maxL
	}
	if n.right != nil && minR < minStart {
		minStart = minR
	}
	return
}

func vxBuildTree(n int, withInf bool, check bool) (*IntervalTree, []vxIv) {
	tree := NewIntervalTree()
	var ivs []vxIv
	for k := 0; k < n; k++ {
		x := vxMkInterval(fmt.Sprintf("i%d", k), withInf)
		dup := false
		for _, y := range ivs {
			if y.iv.Start.Type == x.iv.Start.Type && y.iv.End.Type == x.iv.End.Type &&
				(x.iv.Start.Type != ast.TimestampBound || y.s == x.s) &&
				(x.iv.End.Type != ast.TimestampBound || y.e == x.e) {
				dup = true
			}
		}
		got := tree.Insert(x.iv)
		if check {
			vxAssert(got == !dup, "insert-result")
		}
		if !dup {
			ivs = append(ivs, x)
		}
		if check {
			ok, _, _, _, _ := vxTreeInvariant(tree.root)
			vxAssert(ok, "tree-invariant")
			vxAssert(tree.Size() == len(ivs), "size")
		}
	}
	return tree, ivs
}

// VxC13TreeInsert: N insertions; duplicate detection, AVL/BST/maxEnd invariants, in-order scan.
func VxC13TreeInsert() {
	tree, ivs := vxBuildTree(vxParam("N", 3), vxParam("INF", 0) == 1, true)
	cnt := 0
	sorted := true
	var prev int64 = minInt64
	tree.All(func(iv ast.Interval) error {
		cnt++
		if GetStartTime(iv) < prev {
			sorted = false
		}
		prev = GetStartTime(iv)
		return nil
	})
	vxReach("all")
	vxAssert(cnt == len(ivs), "all-count")
	vxAssert(sorted, "all-sorted")
}

// VxC13TreePoint: N insertions, then a point query at an arbitrary instant.
func VxC13TreePoint() {
	q := vxInt64("q")
	tree, ivs := vxBuildTree(vxParam("N", 3), vxParam("INF", 0) == 1, false)
	want := 0
	for _, y := range ivs {
		if y.s <= q && q <= y.e {
			want++
		}
	}
	got := 0
	sound := true
	tree.QueryPoint(q, func(iv ast.Interval) error {
		got++
		if !(GetStartTime(iv) <= q && q <= GetEndTime(iv)) {
			sound = false
		}
		return nil
	})
	vxReach("point")
	vxObserve("point-hits", got)
	vxObserve("tree-size", tree.Size())
	vxAssert(sound, "point-sound")
	vxAssert(got == want, "point-count")
}

// VxC13TreeRange: N insertions, then a range query [lo,hi].
func VxC13TreeRange() {
	lo, hi := vxInt64("lo"), vxInt64("hi")
	vxAssume(lo <= hi)
	tree, ivs := vxBuildTree(vxParam("N", 3), vxParam("INF", 0) == 1, false)
	want := 0
	for _, y := range ivs {
		if y.s <= hi && lo <= y.e {
			want++
		}
	}
	got := 0
	sound := true
	tree.QueryRange(lo, hi, func(iv ast.Interval) error {
		got++
		if !(GetStartTime(iv) <= hi && lo <= GetEndTime(iv)) {
			sound = false
		}
		return nil
	})
	vxReach("range")
	vxAssert(sound, "range-sound")
	vxAssert(got == want, "range-count")
}

// VxC13Store: temporal store with two atoms, limit, queries by atom.
func VxC13Store() {
	n := vxParam("N", 3)
	withInf := vxParam("INF", 0) == 1
	limit := vxParam("LIMIT", 0)
	var s *TemporalStore
	if limit > 0 {
		s = NewTemporalStore(WithMaxIntervalsPerAtom(limit))
	} else {
		s = NewTemporalStore()
	}
	atoms := []ast.Atom{ast.NewAtom("p", ast.Number(1)), ast.NewAtom("p", ast.Number(2))}
	type rec struct {
		a int
		v vxIv
	}
	var recs []rec
	perAtom := [2]int{}
	for k := 0; k < n; k++ {
		a := vxChoose(fmt.Sprintf("a%d", k), 2)
		name := fmt.Sprintf("i%d", k)
		st, et := 0, 0
		if withInf {
			st = vxChoose(name+"_st", 2)
			et = vxChoose(name+"_et", 2)
		}
		var x vxIv
		if st == 0 {
			x.s = vxInt64(name + "_s")
			x.iv.Start = ast.TemporalBound{Type: ast.TimestampBound, Timestamp: x.s}
		} else {
			x.s = minInt64
			x.iv.Start = ast.NegativeInfinity()
		}
		if et == 0 {
			x.e = vxInt64(name + "_e")
			x.iv.End = ast.TemporalBound{Type: ast.TimestampBound, Timestamp: x.e}
		} else {
			x.e = maxInt64
			x.iv.End = ast.PositiveInfinity()
		}
		added, err := s.Add(atoms[a], x.iv)
		if st == 0 && et == 0 && x.s > x.e {
			vxAssert(err != nil && !added, "invalid-interval-rejected")
			continue
		}
		dup := false
		for _, r := range recs {
			if r.a == a && r.v.iv.Start.Type == x.iv.Start.Type && r.v.iv.End.Type == x.iv.End.Type &&
				(st != 0 || r.v.s == x.s) && (et != 0 || r.v.e == x.e) {
				dup = true
			}
		}
		if limit > 0 && perAtom[a] >= limit {
			vxAssert(err != nil && !added, "limit-enforced")
			continue
		}
		vxAssert(err == nil, "add-no-error")
		vxAssert(added == !dup, "add-result")
		if !dup {
			recs = append(recs, rec{a, x})
			perAtom[a]++
		}
		vxAssert(s.EstimateFactCount() == len(recs), "count")
	}
	q := vxInt64("q")
	vxAssume(q > minInt64/2 && q < maxInt64/2) // T-time: time.Unix(0,q) without saturation
	qt := time.Unix(0, q)
	for a := 0; a < 2; a++ {
		want := 0
		for _, r := range recs {
			if r.a == a && r.v.s <= q && q <= r.v.e {
				want++
			}
		}
		vxAssert(s.ContainsAt(atoms[a], qt) == (want > 0), "contains-at")
		got := 0
		s.GetFactsAt(atoms[a], qt, func(tf TemporalFact) error {
			got++
			return nil
		})
		vxReach("facts-at")
		vxAssert(got == want, "facts-at-count")
	}
	// query with a variable pattern: both atoms
	wantAll, wantDuring := 0, 0
	lo, hi := vxInt64("lo"), vxInt64("hi")
	vxAssume(lo <= hi)
	for _, r := range recs {
		wantAll++
		if r.v.s <= hi && lo <= r.v.e {
			wantDuring++
		}
	}
	pat := ast.NewQuery(ast.PredicateSym{Symbol: "p", Arity: 1})
	got := 0
	s.GetAllFacts(pat, func(tf TemporalFact) error { got++; return nil })
	vxAssert(got == wantAll, "all-count")
	got = 0
	qiv := ast.NewInterval(ast.TemporalBound{Type: ast.TimestampBound, Timestamp: lo}, ast.TemporalBound{Type: ast.TimestampBound, Timestamp: hi})
	s.GetFactsDuring(pat, qiv, func(tf TemporalFact) error { got++; return nil })
	vxAssert(got == wantDuring, "during-count")
}

// VxC13Coalesce: coalescing preserves the pointwise meaning and leaves
// finite intervals pairwise non-overlapping and non-adjacent.
func VxC13Coalesce() {
	n := vxParam("N", 3)
	s := NewTemporalStore()
	atom := ast.NewAtom("p", ast.Number(1))
	var ivs []vxIv
	for k := 0; k < n; k++ {
		x := vxMkInterval(fmt.Sprintf("i%d", k), vxParam("INF", 0) == 1)
		s.Add(atom, x.iv)
		ivs = append(ivs, x)
	}
	q := vxInt64("q")
	vxAssume(q > minInt64/2 && q < maxInt64/2)
	qt := time.Unix(0, q)
	before := s.ContainsAt(atom, qt)
	want := false
	for _, y := range ivs {
		if y.s <= q && q <= y.e {
			want = true
		}
	}
	vxAssert(before == want, "contains-before")
	err := s.Coalesce(atom.Predicate)
	vxAssert(err == nil, "coalesce-no-error")
	vxReach("coalesced")
	vxAssert(s.ContainsAt(atom, qt) == want, "contains-after")
	var out []ast.Interval
	s.GetAllFacts(ast.NewQuery(atom.Predicate), func(tf TemporalFact) error {
		out = append(out, tf.Interval)
		return nil
	})
	vxAssert(s.EstimateFactCount() == len(out), "count-consistent")
	for a := 0; a < len(out); a++ {
		for b := 0; b < len(out); b++ {
			if a == b {
				continue
			}
			x, y := out[a], out[b]
			if x.Start.Type != ast.TimestampBound || x.End.Type != ast.TimestampBound ||
				y.Start.Type != ast.TimestampBound || y.End.Type != ast.TimestampBound {
				continue
			}
			// finite intervals: disjoint and not adjacent
			if x.Start.Timestamp <= y.Start.Timestamp {
				gapOK := x.End.Timestamp < y.Start.Timestamp && x.End.Timestamp+1 < y.Start.Timestamp
				vxAssert(gapOK, "disjoint-nonadjacent")
			}
		}
	}
}
