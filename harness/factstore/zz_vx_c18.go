package factstore

// C18 (first half, by reduction): lock discipline of ConcurrentFactStore. The engine's
// monitor checks, on every path of every method, that (i) each call into the wrapped store
// happens while the mutex is held in the right mode, (ii) the mutex is free again on return,
// (iii) the method is a single critical section. Under the sync.RWMutex contract these
// obligations imply data-race freedom on the wrapped store and linearizability with respect
// to the wrapped store's sequential (C06-checked) behaviour. No interleavings are explored.

import (
	"fmt"

	"codeberg.org/TauCeti/mangle-go/ast"
)

func vxBaseStore(kind int) FactStoreWithRemove {
	switch kind {
	case 0:
		return NewSimpleInMemoryStore()
	case 1:
		return NewIndexedInMemoryStore()
	case 2:
		return NewMultiIndexedInMemoryStore()
	case 3:
		return NewMultiIndexedArrayInMemoryStore()
	}
	panic("base kind")
}

// VxC18LockDiscipline: every method of ConcurrentFactStore over base kind BASE, from a pre-state of 2 atoms.
func VxC18LockDiscipline() {
	base := vxBaseStore(vxParam("BASE", 0))
	c := NewConcurrentFactStore(base)
	vxLockWatch(base, c.mutex)
	atoms := make([]ast.Atom, 3)
	for i := range atoms {
		atoms[i] = ast.NewAtom("p", ast.Number(vxInt64(fmt.Sprintf("x%d", i))))
	}
	c.Add(atoms[0])
	c.Add(atoms[1])
	method := vxChoose("method", 7)
	switch method {
	case 0:
		c.Add(atoms[2])
	case 1:
		c.Remove(atoms[2])
	case 2:
		c.Contains(atoms[2])
	case 3:
		// the callback runs inside the critical section and may itself be slow or fail
		stop := vxChoose("callback-error", 2) == 1
		c.GetFacts(ast.NewQuery(atoms[0].Predicate), func(ast.Atom) error {
			if stop {
				return fmt.Errorf("stop")
			}
			return nil
		})
	case 4:
		// the merged-in store has a different type than the wrapped one (the monitor
		// recognises the wrapped store by its dynamic type)
		var other FactStore = NewIndexedInMemoryStore()
		if vxParam("BASE", 0) == 1 {
			other = NewSimpleInMemoryStore()
		}
		other.Add(atoms[2])
		// a second predicate in the merged-in store: the merge must still be one critical section
		other.Add(ast.NewAtom("zz_other", ast.Number(1)))
		c.Merge(other)
	case 5:
		c.ListPredicates()
	case 6:
		c.EstimateFactCount()
	}
	vxReach("method-returned")
	vxAssert(vxLockViolations() == 0, "lock-discipline")
}
